package c04

import "testing"

func TestExp(t *testing.T) {
	B := func(o ...Op) Contract { return Contract{Methods: one(o...), Fund: 2} }
	// E1 basic rollback
	show(t, "E1", Program{Contracts: []Contract{B(put(0, 1), try(ops(call(0, 0)), ops(ntf)), read(0)), B(put(0, 2), ntf, throw)}, Entry: ops(call(0, 0))})
	// E2 abort in callee under try
	show(t, "E2", Program{Contracts: []Contract{B(put(0, 1), try(ops(call(0, 0)), ops(ntf))), B(put(0, 2), Op{K: "abort"})}, Entry: ops(call(0, 0))})
	show(t, "E3", Program{Contracts: []Contract{B(put(0, 1), try(ops(call(0, 0)), ops(ntf))), B(put(0, 2), Op{K: "burn"})}, Entry: ops(call(0, 0))})
	show(t, "E4", Program{Contracts: []Contract{B(put(0, 1), try(ops(Op{K: "fee", B: 3}), ops(ntf)))}, Entry: ops(call(0, 0))})
	show(t, "E5", Program{Contracts: []Contract{B(put(0, 1), try(ops(call(0, 7)), ops(ntf))), B(put(0, 2))}, Entry: ops(call(0, 0))})
	// E6 pending quirk
	show(t, "E6", Program{Contracts: []Contract{B(try(ops(tryF(ops(throw), ops(call(0, 0)))), ops(ntf)), read(0)), B(put(0, 2), ntf)}, Entry: ops(call(0, 0))})
	// E6b same but not wrapped: A: try{throw}finally{call B; try{throw}catch{}} -> swallow -> fatal
	show(t, "E6b", Program{Contracts: []Contract{B(tryF(ops(throw), ops(call(0, 0), try(ops(throw), nil)))), B(put(0, 2), ntf)}, Entry: ops(call(0, 0))})
	// E7 catch-state leak: entry try{call A}catch{}; A: try{throw}catch{call B}finally{deploy 0}; B: deploy 0; throw
	show(t, "E7", Program{Contracts: []Contract{B(tryCF(ops(throw), ops(call(0, 0)), ops(Op{K: "deploy"}))), B(Op{K: "deploy"}, throw)}, Entry: ops(try(ops(call(0, 0)), nil))})
	// E8 all natives halting
	show(t, "E8", Program{Contracts: []Contract{B(Op{K: "fee", B: 1}, Op{K: "block", A: 0}, Op{K: "block", A: 2}, Op{K: "gas", A: 0, B: 1}, Op{K: "gas", A: 2, B: 2}, Op{K: "deploy", A: 1}, Op{K: "calltiny", A: 1}, Op{K: "unblock", A: 0}, Op{K: "sub", Body: ops(put(1, 3), ntf)}),
		{Methods: one(ntf), Pay: ops(put(2, 1), ntf), Seed: []int{0, 1}}}, Entry: ops(call(0, 0))})
}
