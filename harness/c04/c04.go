// Package c04 checks property C04: failed execution leaves no trace (transaction atomicity and exception rollback).
package c04

import (
	"encoding/hex"
	"errors"
	"fmt"
	"math/big"
	"os"
	"sort"
	"strings"

	"github.com/nspcc-dev/neo-go/pkg/core"
	"github.com/nspcc-dev/neo-go/pkg/core/block"
	"github.com/nspcc-dev/neo-go/pkg/core/fee"
	"github.com/nspcc-dev/neo-go/pkg/core/native/nativehashes"
	"github.com/nspcc-dev/neo-go/pkg/core/state"
	"github.com/nspcc-dev/neo-go/pkg/core/transaction"
	"github.com/nspcc-dev/neo-go/pkg/encoding/bigint"
	"github.com/nspcc-dev/neo-go/pkg/io"
	"github.com/nspcc-dev/neo-go/pkg/smartcontract/callflag"
	"github.com/nspcc-dev/neo-go/pkg/smartcontract/trigger"
	"github.com/nspcc-dev/neo-go/pkg/util"
	"github.com/nspcc-dev/neo-go/pkg/vm/emit"
	"github.com/nspcc-dev/neo-go/pkg/vm/stackitem"
	"github.com/nspcc-dev/neo-go/pkg/vm/vmstate"
	"verifharness/asm"
	ck "verifharness/chainkit"
	"verifharness/vt"
)

// KnownPendingKey names the known finding "a call that completes while an exception is pending is rolled back".
const KnownPendingKey = "call-completed-while-exception-pending"

// KnownCatchFinKey names the known finding "a callee that fails under a caller executing a CATCH block with a FINALLY block
// (no handler in TRY state) is not rolled back before the FINALLY block runs".
const KnownCatchFinKey = "callee-failure-under-catch-with-finally"

// known reports whether a finding is listed in known_findings.json (then its exact shape is excluded). The environment
// variable C04_ASSUME_KNOWN (development / sensitivity runs only; "all" or a list of keys) treats shapes as listed.
func known(key string) bool {
	e := os.Getenv("C04_ASSUME_KNOWN")
	return vt.Known(key) || e == "all" || strings.Contains(e, key)
}

// Case is one generated situation: a call-tree program, who runs it, and the block it runs in.
type Case struct {
	Chain    ck.ChainCfg `json:"chain"`
	Prog     Program     `json:"prog"`
	Sender   int         `json:"sender"`    // account paying for the program transaction
	Deployer int         `json:"deployer"`  // account deploying the generated contracts
	Noise    []ck.Action `json:"noise"`     // other transactions of the block
	Pos      int         `json:"pos"`       // position of the program transaction among them
	PreFee   int64       `json:"pre_fee"`   // >= 0: a committee setFeePerByte(PreFee) transaction right before the program (dirty block-level cache)
	PreBlock int         `json:"pre_block"` // >= 0: a committee blockAccount(target) transaction before the program
	Nonce    uint32      `json:"nonce"`
	BNonce   uint64      `json:"bnonce"`
	Primary  int         `json:"primary"`
	TimeD    uint32      `json:"time_d"`
}

const programSystemFee = 2000_0000_0000 // generous: gas accounting is not the subject, only `burn` must exhaust it

// ---- transaction construction (copy of the relevant part of chainkit.MakeTx with an extra committee signer) ----

func makeProgramTx(b *ck.Builder, script []byte, sender int, nonce uint32, sysFee int64) (*transaction.Transaction, error) {
	bc := b.N.BC
	acc := ck.Single(ck.Accounts[((sender%ck.NAccounts)+ck.NAccounts)%ck.NAccounts])
	com := b.CommitteeActor()
	tx := transaction.New(script, sysFee)
	tx.Nonce = nonce
	tx.ValidUntilBlock = bc.BlockHeight() + 1
	tx.Signers = []transaction.Signer{
		{Account: acc.Hash, Scopes: transaction.Global},
		{Account: com.Hash, Scopes: transaction.Global},
	}
	actors := []ck.Actor{acc, com}
	size := io.GetVarSize(tx)
	for _, a := range actors {
		nf, sd := fee.Calculate(bc.GetBaseExecFee(), a.Ver)
		tx.NetworkFee += nf
		size += sd
	}
	tx.NetworkFee += int64(size)*bc.FeePerByte() + bc.CalculateAttributesFee(tx)
	for _, a := range actors {
		tx.Scripts = append(tx.Scripts, transaction.Witness{InvocationScript: a.Invocation(tx), VerificationScript: a.Ver})
	}
	return tx, nil
}

func encodeBlock(blk *block.Block) ([]byte, error) {
	w := io.NewBufBinWriter()
	blk.EncodeBinary(w.BinWriter)
	if w.Err != nil {
		return nil, w.Err
	}
	return w.Bytes(), nil
}

// ---- observation ------------------------------------------------------------------------------------------

func itemStr(it stackitem.Item) string {
	switch v := it.(type) {
	case stackitem.Null:
		return "null"
	case *stackitem.ByteArray:
		return bs(v.Value().([]byte))
	case *stackitem.Buffer:
		return "buf:" + hex.EncodeToString(v.Value().([]byte))
	case *stackitem.BigInteger:
		return "int:" + v.Value().(*big.Int).String()
	case stackitem.Bool:
		return fmt.Sprintf("bool:%v", v.Value())
	case *stackitem.Array:
		var s []string
		for _, e := range v.Value().([]stackitem.Item) {
			s = append(s, itemStr(e))
		}
		return "[" + strings.Join(s, ",") + "]"
	}
	return fmt.Sprintf("%s:%v", it.Type(), it.Value())
}

func eventStrings(evs []state.NotificationEvent) []string {
	var out []string
	for _, e := range evs {
		out = append(out, fmt.Sprintf("%s %s %s", e.ScriptHash.StringLE(), e.Name, itemStr(e.Item)))
	}
	return out
}

// world carries what the check needs to map the abstract state to the chain.
type world struct {
	np      *nprog
	hashes  []util.Uint160 // generated contracts
	ids     []int32
	sender  util.Uint160
	senderI int
}

func (w *world) hashOfKey(k string) util.Uint160 {
	var i int
	fmt.Sscanf(k[1:], "%d", &i)
	if k[0] == 'c' {
		return w.hashes[i]
	}
	return pseudoAccount(i)
}

func (w *world) allKeys() []string {
	var ks []string
	for i := range w.hashes {
		ks = append(ks, ckey(i))
	}
	for i := 0; i < nPseudo; i++ {
		ks = append(ks, pkey(i))
	}
	return ks
}

// probeScript calls the native getters that are answered from native caches.
func (w *world) probeScript() []byte {
	bw := io.NewBufBinWriter()
	call := func(h util.Uint160, m string, args ...any) {
		emit.AppCall(bw.BinWriter, h, m, callflag.ReadOnly, args...)
	}
	call(nativehashes.PolicyContract, "getFeePerByte")
	for _, k := range w.allKeys() {
		h := w.hashOfKey(k)
		call(nativehashes.PolicyContract, "isBlocked", h)
		call(nativehashes.GasToken, "balanceOf", h)
	}
	for j := 0; j < nTiny; j++ {
		call(nativehashes.ContractManagement, "hasMethod", tinyHash(w.sender, j), "ping", 0)
	}
	return bw.Bytes()
}

// observe reads the concrete counterpart of the abstract state, every part through two independent paths
// (native cache / Go-level API and raw contract storage) which must agree with each other.
func (w *world) observe(bc *core.Blockchain) (*mstate, error) {
	st := &mstate{bal: map[string]int64{}, blocked: map[string]bool{}}
	sm := ck.StorageMap(bc)
	for _, id := range w.ids {
		m := map[string]string{}
		pref := fmt.Sprintf("%d/", id)
		for k, v := range sm {
			if strings.HasPrefix(k, pref) {
				kb, _ := hex.DecodeString(k[len(pref):])
				m[string(kb)] = string(v)
			}
		}
		st.stor = append(st.stor, m)
	}
	// Policy value: cache (Go API), cache (VM getter), storage item.
	polID, gasID, mgmtID := int32(-7), int32(-6), int32(-1)
	for _, n := range bc.GetNatives() {
		switch n.Hash {
		case nativehashes.PolicyContract:
			polID = n.ID
		case nativehashes.GasToken:
			gasID = n.ID
		case nativehashes.ContractManagement:
			mgmtID = n.ID
		}
	}
	feeItem := sm[fmt.Sprintf("%d/%x", polID, []byte{10})]
	feeStored := bigint.FromBytes(feeItem).Int64()
	st.fee = bc.FeePerByte()
	if st.fee != feeStored {
		return nil, fmt.Errorf("Policy fee-per-byte: cached value %d (Blockchain.FeePerByte) differs from the storage item %d", st.fee, feeStored)
	}
	probe := ck.RunReadOnly(bc, w.probeScript())
	var want []string
	want = append(want, fmt.Sprintf(`{"type":"Integer","value":"%d"}`, feeStored))
	for _, k := range w.allKeys() {
		h := w.hashOfKey(k)
		_, blockedStored := sm[fmt.Sprintf("%d/%x", polID, append([]byte{15}, h.BytesBE()...))]
		if blockedStored {
			st.blocked[k] = true
		}
		var bal int64
		if it, ok := sm[fmt.Sprintf("%d/%x", gasID, append([]byte{20}, h.BytesBE()...))]; ok {
			nb, err := state.NEP17BalanceFromBytes(it)
			if err != nil {
				return nil, fmt.Errorf("GAS balance item of %s: %v", k, err)
			}
			bal = nb.Balance.Int64()
		}
		if bal != 0 {
			st.bal[k] = bal
		}
		if g := bc.GetUtilityTokenBalance(h, util.Uint160{}).Int64(); g != bal {
			return nil, fmt.Errorf("GAS balance of %s: Go API %d vs storage %d", k, g, bal)
		}
		want = append(want, fmt.Sprintf(`{"type":"Boolean","value":%v}`, blockedStored), fmt.Sprintf(`{"type":"Integer","value":"%d"}`, bal))
	}
	for j := 0; j < nTiny; j++ {
		h := tinyHash(w.sender, j)
		_, stored := sm[fmt.Sprintf("%d/%x", mgmtID, append([]byte{8}, h.BytesBE()...))]
		cached := bc.GetContractState(h) != nil
		if stored != cached {
			return nil, fmt.Errorf("tiny contract %d: contract registry cache says deployed=%v, Management storage says %v", j, cached, stored)
		}
		st.deployed[j] = stored
		want = append(want, fmt.Sprintf(`{"type":"Boolean","value":%v}`, stored))
	}
	if !strings.HasPrefix(probe, "HALT ") {
		return nil, fmt.Errorf("probe script failed: %s", probe)
	}
	got := probe[strings.Index(probe, " {")+1:]
	if got != strings.Join(want, " ") {
		return nil, fmt.Errorf("native getters (answered from native caches) disagree with contract storage:\n getters: %s\n storage: %s", got, strings.Join(want, " "))
	}
	return st, nil
}

func diffStates(want, got *mstate) string {
	var out []string
	for c := range want.stor {
		keys := map[string]bool{}
		for k := range want.stor[c] {
			keys[k] = true
		}
		for k := range got.stor[c] {
			keys[k] = true
		}
		for _, k := range sortedKeys(keys) {
			wv, wok := want.stor[c][k]
			gv, gok := got.stor[c][k]
			if wok != gok || wv != gv {
				out = append(out, fmt.Sprintf("storage of contract %d key %q: expected %s, chain has %s", c, k, optStr(wv, wok), optStr(gv, gok)))
			}
		}
	}
	keys := map[string]bool{}
	for k := range want.bal {
		keys[k] = true
	}
	for k := range got.bal {
		keys[k] = true
	}
	for _, k := range sortedKeys(keys) {
		if want.bal[k] != got.bal[k] {
			out = append(out, fmt.Sprintf("GAS of %s: expected %d, chain has %d", k, want.bal[k], got.bal[k]))
		}
	}
	if want.fee != got.fee {
		out = append(out, fmt.Sprintf("fee per byte: expected %d, chain has %d", want.fee, got.fee))
	}
	keys = map[string]bool{}
	for k := range want.blocked {
		keys[k] = true
	}
	for k := range got.blocked {
		keys[k] = true
	}
	for _, k := range sortedKeys(keys) {
		if want.blocked[k] != got.blocked[k] {
			out = append(out, fmt.Sprintf("blocked(%s): expected %v, chain has %v", k, want.blocked[k], got.blocked[k]))
		}
	}
	if want.deployed != got.deployed {
		out = append(out, fmt.Sprintf("tiny contracts deployed: expected %v, chain has %v", want.deployed, got.deployed))
	}
	return strings.Join(out, "; ")
}

func optStr(v string, ok bool) string {
	if !ok {
		return "<absent>"
	}
	return fmt.Sprintf("%q", v)
}

func diffLists(want, got []string) string {
	for i := 0; i < len(want) || i < len(got); i++ {
		var w, g = "<none>", "<none>"
		if i < len(want) {
			w = want[i]
		}
		if i < len(got) {
			g = got[i]
		}
		if w != g {
			return fmt.Sprintf("notification #%d: expected %s, got %s (expected %d, got %d in total)", i, w, g, len(want), len(got))
		}
	}
	return ""
}

// ---- the run -----------------------------------------------------------------------------------------------

// outcome is everything one execution of a case produced.
type outcome struct {
	w        *world
	halted   bool
	fault    string
	events   []string
	before   *mstate // observed right before the last block
	after    *mstate // observed after it
	modelOK  bool
	mdl      *model
	expected *mstate
}

func deployScript(c *asm.Contract) []byte {
	bw := io.NewBufBinWriter()
	emit.AppCall(bw.BinWriter, nativehashes.ContractManagement, "deploy", callflag.All, c.NEF, c.Manifest)
	return bw.Bytes()
}

func fundScript(from, to util.Uint160, n int64) []byte {
	bw := io.NewBufBinWriter()
	emit.AppCall(bw.BinWriter, nativehashes.GasToken, "transfer", callflag.All, from, to, n, nil)
	emit.Opcodes(bw.BinWriter, 0x39) // ASSERT
	return bw.Bytes()
}

var errSetup = errors.New("setup")

func setupErr(f string, a ...any) error { return fmt.Errorf("%w: %s", errSetup, fmt.Sprintf(f, a...)) }

func checkCase(c Case, o *vt.Obs) error {
	_, err := runCase(c, o, false)
	return err
}

// runCase executes a case; strict = assert the specification also on the shapes of listed known findings.
func runCase(c Case, o *vt.Obs, strict bool) (*outcome, error) {
	c.Chain.HFStagger = false // the native method table (required call flags) is modelled for "all stable hardforks from genesis"
	np := normalize(c.Prog)
	b, err := ck.NewBuilder(c.Chain)
	if err != nil {
		return nil, setupErr("builder: %v", err)
	}
	defer b.Close()
	raws, err := b.Bootstrap()
	if err != nil {
		return nil, setupErr("bootstrap: %v", err)
	}
	bc := b.N.BC
	senderI := mod(c.Sender, ck.NAccounts)
	deployerI := mod(c.Deployer, ck.NAccounts)
	sender, deployer := ck.Accounts[senderI].Hash, ck.Accounts[deployerI].Hash
	w := &world{np: np, sender: sender, senderI: senderI}

	// Block 3: deploy the generated contracts. Block 4: give them GAS.
	var contracts []*asm.Contract
	var dep, fund []ck.Action
	for i := 0; i < np.nc; i++ {
		ct := compileContract(np, i, fmt.Sprintf("c04gen%d", i), sender)
		contracts = append(contracts, ct)
		h := ck.ContractHash(deployer, ct)
		w.hashes = append(w.hashes, h)
		dep = append(dep, ck.Action{Kind: "raw", From: deployerI, V: deployScript(ct), Nonce: 7000 + uint32(i)})
		if np.funds[i] > 0 {
			fund = append(fund, ck.Action{Kind: "raw", From: deployerI, V: fundScript(deployer, h, np.funds[i]), Nonce: 7100 + uint32(i)})
		}
	}
	// Two oracle requests through the library contracts stay pending (callbacks: one stores the result, one stores it and
	// then throws): oracle responses among the noise transactions of the last block run these callbacks.
	fund = append(fund,
		ck.Action{Kind: "oracle_request", From: deployerI, A: 0, B: 1, N: 1_0000_0000, S: "a", V: vt.Bytes("c04"), Nonce: 7200},
		ck.Action{Kind: "oracle_request", From: deployerI, A: 1, B: 2, N: 1_0000_0000, S: "b", V: vt.Bytes("c04"), Nonce: 7201})
	for _, spec := range [][]ck.Action{dep, fund} {
		raw, blk, err := b.BuildBlock(ck.BlockSpec{Txs: spec, TimeD: 1000})
		if err != nil {
			return nil, setupErr("setup block: %v", err)
		}
		if len(blk.Transactions) != len(spec) {
			return nil, setupErr("setup transactions rejected: %v", b.Rejected)
		}
		for _, tx := range blk.Transactions {
			aer, err := bc.GetAppExecResults(tx.Hash(), trigger.Application)
			if err != nil || len(aer) != 1 || aer[0].VMState != vmstate.Halt {
				return nil, setupErr("setup transaction failed: %v %+v", err, aer)
			}
		}
		raws = append(raws, raw)
	}
	for i, h := range w.hashes {
		cs := bc.GetContractState(h)
		if cs == nil {
			return nil, setupErr("generated contract %d is not deployed", i)
		}
		w.ids = append(w.ids, cs.ID)
	}

	// The last block: noise transactions, optional committee transactions touching the same native state, the program.
	type item struct {
		tx   *transaction.Transaction
		kind string
	}
	var items []item
	pool := func(tx *transaction.Transaction) bool { return bc.PoolTx(tx) == nil }
	for _, a := range c.Noise {
		if a.Kind == "policy" && a.S == "setFeePerByte" {
			continue // the fee-per-byte value is modelled: only the transactions of this check may change it
		}
		tx, err := b.MakeTx(a)
		if err != nil || !pool(tx) {
			continue
		}
		items = append(items, item{tx, "noise"})
	}
	// A later noise transaction may have replaced an earlier one in the pool (two oracle responses to one request).
	kept := items[:0]
	for _, it := range items {
		if bc.GetMemPool().ContainsKey(it.tx.Hash()) {
			kept = append(kept, it)
		}
	}
	items = kept
	pos := 0
	if len(items) > 0 {
		pos = mod(c.Pos, len(items)+1)
	}
	var pre []item
	if c.PreFee >= 0 {
		tx, err := b.MakeTx(ck.Action{Kind: "policy", From: deployerI, S: "setFeePerByte", N: c.PreFee % 3001, Nonce: c.Nonce ^ 0x5a5a})
		if err != nil || !pool(tx) {
			return nil, setupErr("pre-fee transaction: %v", err)
		}
		pre = append(pre, item{tx, "prefee"})
	}
	preBlockKey := ""
	if c.PreBlock >= 0 {
		s := mod(c.PreBlock, nPseudo+np.nc)
		preBlockKey = pkey(s)
		if s >= nPseudo {
			preBlockKey = ckey(s - nPseudo)
		}
		bw := io.NewBufBinWriter()
		emit.AppCall(bw.BinWriter, nativehashes.PolicyContract, "blockAccount", callflag.All, w.hashOfKey(preBlockKey))
		tx, err := makeProgramTx(b, bw.Bytes(), deployerI, c.Nonce^0xa5a5, 5_0000_0000)
		if err != nil || !pool(tx) {
			return nil, setupErr("pre-block transaction: %v", err)
		}
		pre = append(pre, item{tx, "preblock"})
	}
	ptx, err := makeProgramTx(b, compileEntry(np, w.hashes, sender), senderI, c.Nonce, programSystemFee)
	if err != nil {
		return nil, setupErr("program transaction: %v", err)
	}
	if err := bc.PoolTx(ptx); err != nil {
		return nil, setupErr("program transaction rejected: %v", err)
	}
	var txs, txsWithout []*transaction.Transaction
	for i := 0; i <= len(items); i++ {
		if i == pos {
			for _, p := range pre {
				txs = append(txs, p.tx)
				txsWithout = append(txsWithout, p.tx)
			}
			txs = append(txs, ptx)
		}
		if i < len(items) {
			txs = append(txs, items[i].tx)
			txsWithout = append(txsWithout, items[i].tx)
		}
	}
	for _, tx := range txs {
		if !bc.GetMemPool().ContainsKey(tx.Hash()) {
			return nil, setupErr("transaction evicted from the pool while the block was being built")
		}
	}
	before, err := w.observe(bc)
	if err != nil {
		return nil, setupErr("observation before the block: %v", err)
	}
	blkA, err := b.NextBlock(txs, c.TimeD, c.BNonce, c.Primary)
	if err != nil {
		return nil, setupErr("block: %v", err)
	}
	blkB, err := b.NextBlock(txsWithout, c.TimeD, c.BNonce, c.Primary)
	if err != nil {
		return nil, setupErr("twin block: %v", err)
	}
	rawB, err := encodeBlock(blkB)
	if err != nil {
		return nil, setupErr("twin block: %v", err)
	}
	vals, err := bc.GetNextBlockValidators()
	if err != nil || int(blkA.PrimaryIndex) >= len(vals) {
		return nil, setupErr("validators: %v", err)
	}
	primary := vals[blkA.PrimaryIndex].GetScriptHash() // receives the network fees (GAS.OnPersist)
	if err := bc.AddBlock(blkA); err != nil {
		return nil, fmt.Errorf("block with the program transaction rejected: %v", err)
	}

	// ---- what happened
	aers, err := bc.GetAppExecResults(ptx.Hash(), trigger.Application)
	if err != nil || len(aers) != 1 {
		return nil, fmt.Errorf("no execution result for the program transaction: %v", err)
	}
	out := &outcome{w: w, before: before, halted: aers[0].VMState == vmstate.Halt, fault: aers[0].FaultException, events: eventStrings(aers[0].Events)}
	if !out.halted && aers[0].VMState != vmstate.Fault {
		return nil, fmt.Errorf("program transaction ended in state %s", aers[0].VMState)
	}
	for _, p := range pre {
		a, err := bc.GetAppExecResults(p.tx.Hash(), trigger.Application)
		if err != nil || len(a) != 1 || a[0].VMState != vmstate.Halt {
			return nil, setupErr("%s transaction did not HALT: %v", p.kind, err)
		}
	}
	after, err := w.observe(bc)
	if err != nil {
		return out, fmt.Errorf("after the block: %v", err)
	}
	out.after = after
	// An oracle callback that threw (oracleCbFail writes an item under a reserved prefix first) leaves no item behind.
	for _, l := range ck.Flows(bc, blkA, nil) {
		o.Label("noise/" + l)
	}
	if leaked := ck.LeakedFailedCallbackWrites(bc); len(leaked) != 0 {
		return out, fmt.Errorf("storage items written by an oracle callback that threw afterwards survived the block: %v", leaked)
	}

	// ---- oracle 1: the model
	init := before.clone()
	if c.PreFee >= 0 {
		init.fee = c.PreFee % 3001
	}
	if preBlockKey != "" {
		init.blocked[preBlockKey] = true
	}
	m := &model{np: np, hashes: w.hashes, sender: sender}
	out.mdl = m
	out.modelOK = m.run(init)
	out.expected = m.st
	for l := range m.labels {
		o.Label(l)
	}
	if m.steps > 20000 || m.deploys > 120 {
		o.Label("too-big")
		return out, nil
	}
	if m.quirk != "" {
		o.Label("shape/" + KnownPendingKey)
		if !strict && known(KnownPendingKey) {
			o.Excluded()
			return out, nil
		}
	}
	if m.leak != "" {
		o.Label("shape/" + KnownCatchFinKey)
		if !strict && known(KnownCatchFinKey) {
			o.Excluded()
			return out, nil
		}
	}
	if out.modelOK {
		o.Label("HALT")
	} else {
		o.Label("FAULT")
		o.Label("fault/" + firstWords(m.why))
	}
	if out.halted != out.modelOK {
		return out, fmt.Errorf("program transaction: expected %s (%s), chain says %s (%s)", haltStr(out.modelOK), m.why, haltStr(out.halted), out.fault)
	}
	if d := diffStates(out.expected, after); d != "" {
		return out, fmt.Errorf("state after the %s program transaction differs from the specification: %s", haltStr(out.halted), d)
	}
	if out.halted {
		// The AER of a FAULTed transaction is a log of what the VM had accumulated, not ledger state (docs/rpc.md: notifications
		// are omitted for faulted transactions by every consumer); nothing is asserted about it.
		if d := diffLists(out.expected.notes, out.events); d != "" {
			return out, fmt.Errorf("notifications of the HALTed program transaction: %s", d)
		}
	}
	if out.halted {
		// A consumer of notifications: the NEP-17 transfer log holds exactly the kept transfers of the transaction.
		for _, k := range w.allKeys() {
			var want, got []string
			for _, x := range out.expected.xfers {
				if x.from == k {
					want = append(want, fmt.Sprintf("%d:%s", -x.n, w.hashOfKey(x.to).StringLE()))
				}
				if x.to == k {
					want = append(want, fmt.Sprintf("%d:%s", x.n, w.hashOfKey(x.from).StringLE()))
				}
			}
			_ = bc.ForEachNEP17Transfer(w.hashOfKey(k), ^uint64(0)>>1, func(t *state.NEP17Transfer) (bool, error) {
				if t.Tx == ptx.Hash() {
					got = append(got, fmt.Sprintf("%s:%s", t.Amount.String(), t.Counterparty.StringLE()))
				}
				return true, nil
			})
			sort.Strings(want)
			sort.Strings(got)
			if strings.Join(want, ",") != strings.Join(got, ",") {
				return out, fmt.Errorf("NEP-17 transfer log of %s for the HALTed program transaction: expected [%s], node recorded [%s]", k, strings.Join(want, ","), strings.Join(got, ","))
			}
		}
	}
	if out.halted && m.caughtEffects && !out.expected.equal(init) {
		o.NonTrivial()
	}

	// ---- oracle 2: a faulted transaction = the same block without it, except for the fees
	if !out.halted {
		if err := twinCheck(c, w, raws, rawB, blkA, ptx, primary, bc, o); err != nil {
			return out, err
		}
	}
	return out, nil
}

func firstWords(s string) string {
	if i := strings.IndexByte(s, '('); i > 0 {
		s = s[:i]
	}
	return strings.TrimSpace(s)
}

func haltStr(h bool) string {
	if h {
		return "HALT"
	}
	return "FAULT"
}

func gasKey(h util.Uint160) string {
	return fmt.Sprintf("st/-6/%x", append([]byte{20}, h.BytesBE()...))
}

func gasOf(d ck.Dump, key string) (*big.Int, error) {
	v, ok := d[key]
	if !ok {
		return big.NewInt(0), nil
	}
	raw, err := hex.DecodeString(v)
	if err != nil {
		return nil, err
	}
	if key == "st/-6/0b" {
		return bigint.FromBytes(raw), nil
	}
	nb, err := state.NEP17BalanceFromBytes(raw)
	if err != nil {
		return nil, err
	}
	return &nb.Balance, nil
}

func twinCheck(c Case, w *world, raws [][]byte, rawB []byte, blkA *block.Block, ptx *transaction.Transaction, primary util.Uint160, bc *core.Blockchain, o *vt.Obs) error {
	twin, err := ck.NewNode(c.Chain, ck.NodeCfg{Backend: "mem", NoVerifyTx: true}, nil) // signatures are not the subject
	if err != nil {
		return setupErr("twin: %v", err)
	}
	defer twin.Close()
	for i, raw := range append(append([][]byte{}, raws...), rawB) {
		blk, err := ck.DecodeBlock(raw, c.Chain.SRIH)
		if err != nil {
			return setupErr("twin: decode block %d: %v", i+1, err)
		}
		if err := twin.BC.AddBlock(blk); err != nil {
			return setupErr("twin rejects block %d: %v", i+1, err)
		}
	}
	var extra []util.Uint160
	for _, k := range w.allKeys() {
		extra = append(extra, w.hashOfKey(k))
	}
	for j := 0; j < nTiny; j++ {
		extra = append(extra, tinyHash(w.sender, j))
	}
	da, db := ck.FullDump(bc, nil), ck.FullDump(twin.BC, nil)
	// Hash-dependent observables and the three GAS entries that legitimately differ.
	senderKey, primaryKey, supplyKey := gasKey(w.sender), gasKey(primary), "st/-6/0b"
	type delta struct {
		key  string
		want int64
	}
	for _, dl := range []delta{{senderKey, -(ptx.SystemFee + ptx.NetworkFee)}, {primaryKey, ptx.NetworkFee}, {supplyKey, -ptx.SystemFee}} {
		a, err1 := gasOf(da, dl.key)
		bb, err2 := gasOf(db, dl.key)
		if err1 != nil || err2 != nil {
			return fmt.Errorf("twin: cannot decode GAS entry %s: %v %v", dl.key, err1, err2)
		}
		if got := new(big.Int).Sub(a, bb).Int64(); got != dl.want {
			return fmt.Errorf("faulted transaction vs block without it: GAS entry %s differs by %d, expected %d (system fee %d, network fee %d)", dl.key, got, dl.want, ptx.SystemFee, ptx.NetworkFee)
		}
	}
	accKey := fmt.Sprintf("go/acc/%d", w.senderI)
	for _, k := range []string{"hash", "stateroot", "localroot", "vm/getters", senderKey, primaryKey, supplyKey, accKey} {
		delete(da, k)
		delete(db, k)
	}
	if d := ck.Diff(da, db); d != "" {
		return fmt.Errorf("the FAULTed program transaction left a trace: ledger state differs from the twin that got the same block without it: %s", d)
	}
	// Native getters through the VM (native caches), without the entries that legitimately differ.
	if pa, pb := ck.RunReadOnly(bc, w.probeScript()), ck.RunReadOnly(twin.BC, w.probeScript()); pa != pb {
		return fmt.Errorf("the FAULTed program transaction left a trace in native caches: %s vs twin %s", pa, pb)
	}
	// Every other transaction of the block executed identically.
	var others []*transaction.Transaction
	for _, tx := range blkA.Transactions {
		if tx.Hash() != ptx.Hash() {
			others = append(others, tx)
		}
	}
	aa, ab := ck.AERs(bc, blkA.Hash(), others, false), ck.AERs(twin.BC, twin.BC.CurrentBlockHash(), others, false)
	for k := range aa {
		if strings.HasPrefix(k, "aer/block") {
			delete(aa, k)
		}
	}
	for k := range ab {
		if strings.HasPrefix(k, "aer/block") {
			delete(ab, k)
		}
	}
	if d := ck.Diff(aa, ab); d != "" {
		return fmt.Errorf("the FAULTed program transaction changed the execution of another transaction of the block: %s", d)
	}
	// Token transfer logs (a consumer of notifications): nothing of the faulted transaction is recorded.
	for _, h := range extra {
		la, lb := transferLog(bc, h), transferLog(twin.BC, h)
		if la != lb {
			return fmt.Errorf("NEP-17 transfer log of %s differs from the twin: %s vs %s", h.StringLE(), la, lb)
		}
	}
	o.Label("twin-compared")
	o.Units(1)
	return nil
}

func transferLog(bc *core.Blockchain, h util.Uint160) string {
	var s []string
	_ = bc.ForEachNEP17Transfer(h, ^uint64(0)>>1, func(t *state.NEP17Transfer) (bool, error) {
		s = append(s, fmt.Sprintf("%d:%s:%s@%d/%s", t.Asset, t.Counterparty.StringLE(), t.Amount.String(), t.Block, t.Tx.StringLE()))
		return true, nil
	})
	sort.Strings(s)
	return strings.Join(s, ",")
}

func init() {
	vt.PropertyID = "C04"
	vt.Register("calltree", 1.0, genCase, checkCase)
}
