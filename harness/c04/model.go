package c04

import (
	"fmt"
	"maps"
	"slices"
	"sort"
	"strings"

	"github.com/nspcc-dev/neo-go/pkg/core/native/nativehashes"
	"github.com/nspcc-dev/neo-go/pkg/smartcontract/callflag"
	"github.com/nspcc-dev/neo-go/pkg/util"
)

// The model is an interpreter of the normalised program over an abstract ledger state.
//
// What is ROLLED BACK comes from the property text only:
//   - a call takes a snapshot of the whole abstract state (storages, notification list, balances, policy value,
//     blocked set, deployed set); when an exception LEAVES the callee the snapshot is restored, otherwise
//     everything the callee did stays;
//   - an uncatchable failure anywhere faults the transaction: nothing stays.
//
// What is NOT the subject of the property (control flow of the VM, required call flags, which failures are catchable,
// results of native methods) follows neo-go's code / NeoVM semantics, each point checked by a unit experiment
// (unit_test.go): only THROW is catchable; ABORT, out-of-gas, failing syscalls and failing native methods fault the VM;
// NeoVM keeps a single pending exception (an inner catch inside a finally block clears it; ENDFINALLY rethrows
// whatever is pending; a finally entered by an exception has no end offset).

type result int

const (
	rOK result = iota
	rThrown
	rFatal
)

type mstate struct {
	stor     []map[string]string // per generated contract
	notes    []string            // ordered notifications "<hash LE> <name> <items>"
	bal      map[string]int64    // GAS of "c<i>" (contracts) and "p<i>" (pseudo accounts)
	fee      int64
	blocked  map[string]bool // same keys as bal
	deployed [nTiny]bool
	xfers    []xfer // kept GAS transfers, in order
}

type xfer struct {
	from, to string
	n        int64
}

func (s *mstate) clone() *mstate {
	c := &mstate{xfers: slices.Clone(s.xfers), notes: slices.Clone(s.notes), bal: maps.Clone(s.bal), fee: s.fee, blocked: maps.Clone(s.blocked), deployed: s.deployed}
	for _, m := range s.stor {
		c.stor = append(c.stor, maps.Clone(m))
	}
	return c
}

func (s *mstate) equal(o *mstate) bool {
	if s.fee != o.fee || s.deployed != o.deployed || !slices.Equal(s.notes, o.notes) || !slices.Equal(s.xfers, o.xfers) || !maps.Equal(s.bal, o.bal) || !maps.Equal(s.blocked, o.blocked) {
		return false
	}
	for i := range s.stor {
		if !maps.Equal(s.stor[i], o.stor[i]) {
			return false
		}
	}
	return true
}

// nativeEqual compares the parts kept in native contract caches (Policy values, blocked list, contract registry).
func (s *mstate) nativeEqual(o *mstate) bool {
	return s.fee == o.fee && s.deployed == o.deployed && maps.Equal(s.blocked, o.blocked)
}

func ckey(c int) string { return fmt.Sprintf("c%d", c) }
func pkey(p int) string { return fmt.Sprintf("p%d", p) }

type frame struct {
	c         int // contract index, -1 entry
	flags     callflag.CallFlag
	depth     int // entry 0, contract called by the entry 1, ...
	activeTry int // try blocks of this contract invocation currently executing their TRY body
	subNest   int // internal subroutine calls (CALL) of this contract invocation currently active
	catchFin  int // try blocks of this contract invocation currently executing their CATCH block and having a FINALLY block
	parent    *frame
}

// propagation describes the exception currently travelling up (for the class histogram only).
type propagation struct {
	frames      int  // contract invocations it has left so far
	passedNoTry bool // it left a callee whose caller had no active try at the call (layer-less call in neo-go)
	effects     bool // some left invocation had changed the state
	native      bool // ... including native-cache-backed state
	deploy      bool
}

type model struct {
	np      *nprog
	hashes  []util.Uint160 // generated contracts
	sender  util.Uint160
	st      *mstate
	pending bool // an exception is pending (VM's single uncaughtException slot)
	prop    propagation
	finNest int
	why     string // reason of the fatal failure

	steps, deploys int
	labels         map[string]bool
	quirk          string // set when the known "call completed while an exception was pending" shape occurred
	leak           string // set when the known "callee failed under a caller that is in a CATCH block with FINALLY" shape occurred
	caughtEffects  bool   // a caught exception rolled back at least one state change
}

func (m *model) label(l string) { m.labels[l] = true }

func (m *model) anyAncestorTry(fr *frame) bool {
	for f := fr; f != nil; f = f.parent {
		if f.activeTry > 0 {
			return true
		}
	}
	return false
}

func (m *model) fatal(fr *frame, why string) result {
	if m.why == "" {
		m.why = why
	}
	if fr.depth >= 2 && m.anyAncestorTry(fr) {
		m.label("uncatchable-in-nested-call")
	}
	return rFatal
}

func bs(b []byte) string { return fmt.Sprintf("bs:%x", b) }

func (m *model) note(h util.Uint160, name string, items ...string) {
	m.st.notes = append(m.st.notes, fmt.Sprintf("%s %s [%s]", h.StringLE(), name, strings.Join(items, ",")))
}

func (m *model) targetKeyHash(n *nop) (string, util.Uint160) {
	if n.acct >= 0 {
		return pkey(n.acct), pseudoAccount(n.acct)
	}
	return ckey(n.ctgt), m.hashes[n.ctgt]
}

// callLike wraps everything that goes through System.Contract.Call: snapshot, run, restore when an exception leaves.
func (m *model) callLike(fr *frame, eff callflag.CallFlag, run func() result) result {
	if fr.subNest > 0 && fr.activeTry > 0 {
		m.label("call-from-subroutine-under-try")
	}
	snap := m.st.clone()
	// Signature of the listed finding: the caller's contract invocation still has a handler that can run code (a TRY body,
	// or a CATCH block with a FINALLY block), which is when neo-go gives the callee a layer of its own.
	wrappedLike := (fr.activeTry > 0 || fr.catchFin > 0) && eff&(callflag.WriteStates|callflag.AllowNotify) != 0
	r := run()
	switch r {
	case rFatal:
		return rFatal
	case rThrown:
		// The exception leaves the callee: everything it (and whatever it called) did is undone.
		m.prop.frames++
		if fr.activeTry == 0 {
			m.prop.passedNoTry = true
			if fr.catchFin > 0 && !m.st.equal(snap) {
				// Known shape: the caller has no handler in TRY state but its FINALLY block will still run and can
				// observe what the failed callee did.
				m.leak = "callee failed with effects while the caller executes a CATCH block that has a FINALLY block and no enclosing active TRY"
			}
		}
		if !m.st.equal(snap) {
			m.prop.effects = true
		}
		if !m.st.nativeEqual(snap) {
			m.prop.native = true
		}
		if m.st.deployed != snap.deployed {
			m.prop.deploy = true
		}
		m.st = snap
		return rThrown
	}
	if m.pending && wrappedLike && !m.st.equal(snap) {
		// Known shape: the callee completed normally while an older exception was pending in the caller (call made
		// from a finally block during unwinding). By the property its effects stay (it did not fail).
		m.quirk = "call completed while an exception was pending, caller contract has a live handler (TRY body, or CATCH with FINALLY)"
	}
	return rOK
}

func (m *model) exec(ops []*nop, fr *frame) result {
	for _, n := range ops {
		m.steps++
		if r := m.step(n, fr); r != rOK {
			return r
		}
	}
	return rOK
}

func (m *model) step(n *nop, fr *frame) result {
	st := m.st
	has := func(f callflag.CallFlag) bool { return fr.flags&f == f }
	switch n.k {
	case "put":
		if !has(callflag.WriteStates) {
			return m.fatal(fr, "put without WriteStates")
		}
		st.stor[fr.c][string(n.key)] = string(n.val)
	case "del":
		if !has(callflag.WriteStates) {
			return m.fatal(fr, "delete without WriteStates")
		}
		delete(st.stor[fr.c], string(n.key))
	case "notify":
		if !has(callflag.AllowNotify) {
			return m.fatal(fr, "notify without AllowNotify")
		}
		m.note(m.hashes[fr.c], "E", bs(tag(n.id)))
	case "read":
		if !has(callflag.AllowNotify) {
			return m.fatal(fr, "notify without AllowNotify")
		}
		v, ok := st.stor[fr.c][string(n.key)]
		item := "null"
		if ok {
			item = bs([]byte(v))
		}
		m.note(m.hashes[fr.c], "R", bs(tag(n.id)), item)
	case "throw":
		m.pending = true
		m.prop = propagation{}
		if m.finNest > 0 {
			m.label("throw-inside-finally")
		}
		return rThrown
	case "abort":
		return m.fatal(fr, "ABORT")
	case "burn":
		return m.fatal(fr, "out of gas")
	case "sub":
		// Internal CALL: same contract invocation (same flags, same storage, try blocks of the callers still count),
		// exceptions travel through it like through any nested block.
		fr.subNest++
		r := m.exec(n.body, fr)
		fr.subNest--
		return r
	case "try":
		return m.try(n, fr)
	case "call":
		if st.blocked[ckey(n.tgt.c)] {
			return m.fatal(fr, "call of a blocked contract")
		}
		eff := fr.flags & n.flags
		return m.callLike(fr, eff, func() result {
			return m.exec(n.tgt.ops, &frame{c: n.tgt.c, flags: eff, depth: fr.depth + 1, parent: fr})
		})
	case "fee":
		if !has(callflag.States) {
			return m.fatal(fr, "setFeePerByte without States")
		}
		if n.n < 0 {
			return m.fatal(fr, "setFeePerByte rejects the value")
		}
		return m.callLike(fr, fr.flags, func() result {
			m.st.fee = n.n
			if m.pending {
				// A void method that completes while an exception is pending gets no Null pushed for the caller
				// (vm.DynamicOnUnload with commit=false): the generated DROP underflows.
				return m.fatal(fr, "void native call completed while an exception was pending: no return value")
			}
			return rOK
		})
	case "block", "unblock":
		need := callflag.States | callflag.AllowNotify
		if n.k == "unblock" {
			need = callflag.States
		}
		if !has(need) {
			return m.fatal(fr, n.k+"Account without the required flags")
		}
		key, _ := m.targetKeyHash(n)
		return m.callLike(fr, fr.flags, func() result {
			if n.k == "block" {
				m.st.blocked[key] = true
			} else {
				delete(m.st.blocked, key)
			}
			return rOK
		})
	case "gas":
		if !has(callflag.All) {
			return m.fatal(fr, "transfer without the required flags")
		}
		return m.callLike(fr, fr.flags, func() result { return m.transfer(n, fr) })
	case "deploy":
		if !has(callflag.All) {
			return m.fatal(fr, "deploy without the required flags")
		}
		if st.deployed[n.tiny] {
			return m.fatal(fr, "contract already exists")
		}
		m.deploys++
		return m.callLike(fr, fr.flags, func() result {
			m.st.deployed[n.tiny] = true
			m.note(nativehashes.ContractManagement, "Deploy", bs(tinyHash(m.sender, n.tiny).BytesBE()))
			return rOK
		})
	case "calltiny":
		if !st.deployed[n.tiny] {
			return m.fatal(fr, "called contract not found")
		}
		if !has(callflag.AllowNotify) {
			return m.fatal(fr, "notify without AllowNotify")
		}
		return m.callLike(fr, fr.flags, func() result {
			m.note(tinyHash(m.sender, n.tiny), "E", bs([]byte{0xEE, byte(n.tiny)}))
			return rOK
		})
	default:
		panic("model: unknown op " + n.k)
	}
	return rOK
}

func (m *model) try(n *nop, fr *frame) result {
	fr.activeTry++
	r := m.exec(n.body, fr)
	fr.activeTry--
	if r == rFatal {
		return r
	}
	viaException := false // whether the finally block is entered by an exception (no ENDTRY executed: end offset unset)
	if r == rThrown {
		if n.hasC {
			// The exception is caught here.
			m.pending = false
			p := m.prop
			if p.frames >= 1 {
				m.label("caught-from-callee")
				if p.effects {
					m.label("rollback-of-effects")
					m.caughtEffects = true
				}
				if p.frames >= 3 {
					m.label("depth-3-unwinding")
				}
				if p.passedNoTry && p.frames >= 2 {
					m.label("callee-without-try-under-caller-with-try")
				}
				if p.native {
					m.label("native-cache-touched-in-failed-subtree")
				}
				if p.deploy {
					m.label("deploy-in-failed-subtree")
				}
			} else {
				m.label("caught-own-throw")
			}
			if n.hasF {
				fr.catchFin++
			}
			r = m.exec(n.catch, fr)
			if n.hasF {
				fr.catchFin--
			}
			if r == rFatal {
				return r
			}
			if r == rThrown {
				viaException = true
			}
		} else {
			viaException = true
		}
	}
	if !n.hasF {
		return r
	}
	m.finNest++
	r2 := m.exec(n.fin, fr)
	m.finNest--
	if r2 != rOK {
		return r2
	}
	// ENDFINALLY
	if m.pending {
		if !viaException {
			m.label("finally-rethrows-foreign-pending")
		}
		return rThrown
	}
	if viaException {
		m.label("pending-exception-swallowed-in-finally")
		return m.fatal(fr, "ENDFINALLY without end offset (the pending exception was cleared inside the finally block)")
	}
	return rOK
}

func (m *model) transfer(n *nop, fr *frame) result {
	st := m.st
	from := ckey(fr.c)
	if st.bal[from] < n.n {
		return rOK // transfer returns false, nothing happens
	}
	key, h := m.targetKeyHash(n)
	st.bal[from] -= n.n
	st.bal[key] += n.n
	st.xfers = append(st.xfers, xfer{from, key, n.n})
	m.note(nativehashes.GasToken, "Transfer", bs(m.hashes[fr.c].BytesBE()), bs(h.BytesBE()), fmt.Sprintf("int:%d", n.n))
	if n.tgt == nil {
		return rOK
	}
	// Payment callback of a generated contract, started by the native contract: an exception cannot travel through
	// the native frame.
	if st.blocked[key] {
		return m.fatal(fr, "payment callback of a blocked contract")
	}
	nat := &frame{c: -2, flags: fr.flags, depth: fr.depth + 1, parent: fr}
	r := m.exec(n.tgt.ops, &frame{c: n.tgt.c, flags: fr.flags, depth: fr.depth + 2, parent: nat})
	switch r {
	case rThrown:
		return m.fatal(fr, "exception leaves a payment callback started by a native contract")
	case rFatal:
		return r
	}
	if m.pending {
		return m.fatal(fr, "payment callback completed while an exception was pending")
	}
	return rOK
}

// run interprets the whole transaction. It returns true when the transaction HALTs; on a fault the state is the
// initial one (nothing stays).
func (m *model) run(init *mstate) bool {
	m.st = init.clone()
	m.labels = map[string]bool{}
	r := m.exec(m.np.entry.ops, &frame{c: -1, flags: callflag.All})
	if r == rOK {
		return true
	}
	if r == rThrown && m.why == "" {
		m.why = "uncaught exception"
	}
	if !m.st.equal(init) {
		m.label("fault-after-effects")
	}
	m.st = init.clone()
	return false
}

func sortedKeys[V any](m map[string]V) []string {
	k := make([]string, 0, len(m))
	for x := range m {
		k = append(k, x)
	}
	sort.Strings(k)
	return k
}
