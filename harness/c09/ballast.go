package c09

import (
	"encoding/binary"

	"github.com/nspcc-dev/neo-go/pkg/core/storage"
)

// KnownLevelDBReuse is the known_findings.json key of the LevelDB lost-write finding (see report):
// goleveldb gives the file number of a removed table back (session.reuseFileNum) when a background compaction
// produced no output, but the block cache still holds the removed table's blocks under that number
// (Options.BlockCacheEvictRemoved is false in NewLevelDBStore) - the next PutChangeSet then writes a table whose
// content is shadowed by stale cached blocks: the committed batch is invisible until the DB is reopened.
// Whether it strikes depends on the timing of goleveldb's compaction goroutine, i.e. it is not a function of the case.
const KnownLevelDBReuse = "leveldb-filenum-reuse-stale-block-cache"

// ballastStore is the EXCLUSION for that finding (active only while the finding is listed as "known"): every batch
// written to LevelDB additionally carries one unique never-deleted key under the otherwise unused first byte 0xEE and a
// ballast batch follows every SeekGC. No level-0 compaction can then come out empty while it contains the newest
// table, so no file number is reused. Nothing the checks read starts with 0xEE.
type ballastStore struct {
	storage.Store
	n uint64
}

func (b *ballastStore) ballastKey() string {
	b.n++
	return string(binary.BigEndian.AppendUint64([]byte{0xEE}, b.n))
}

func (b *ballastStore) PutChangeSet(puts, stor map[string][]byte) error {
	p2 := make(map[string][]byte, len(puts)+1)
	for k, v := range puts {
		p2[k] = v
	}
	p2[b.ballastKey()] = []byte{1}
	return b.Store.PutChangeSet(p2, stor)
}

func (b *ballastStore) SeekGC(rng storage.SeekRange, f func(k, v []byte) (bool, bool)) error {
	if err := b.Store.SeekGC(rng, f); err != nil {
		return err
	}
	return b.Store.PutChangeSet(map[string][]byte{b.ballastKey(): {1}}, map[string][]byte{})
}
