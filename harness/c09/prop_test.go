package c09

import (
	"testing"

	"verifharness/vt"
)

func TestProp(t *testing.T)   { vt.RunAll(t, 4000) }
func TestReplay(t *testing.T) { vt.ReplayAll(t) }
