package c09

import (
	"testing"

	"verifharness/vt"
)

func TestProp(t *testing.T) {
	probeKnown()
	vt.RunAll(t, 4000)
}
func TestReplay(t *testing.T) { vt.ReplayAll(t) }
