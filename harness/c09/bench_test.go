package c09

import (
	"fmt"
	"os"
	"testing"
	"time"

	"pgregory.net/rapid"
	"verifharness/vt"
)

// TestThroughput (C09_BENCH=1) measures the per-case cost of the layers check per backend on the same generated cases.
func TestThroughput(t *testing.T) {
	if os.Getenv("C09_BENCH") == "" {
		t.Skip("C09_BENCH not set")
	}
	const n = 300
	var cases []Case
	g := rapid.Custom(genLayersMem)
	for i := 0; i < n; i++ {
		cases = append(cases, g.Example(i))
	}
	for _, kind := range []string{"mem", "bolt", "leveldb"} {
		start := time.Now()
		ops := 0
		for _, c := range cases {
			c.Backend = kind
			ops += len(c.Ops)
			if err := checkLayers(c, &vt.Obs{}); err != nil {
				t.Logf("%s: %v", kind, err)
			}
		}
		d := time.Since(start)
		fmt.Printf("THROUGHPUT layers backend=%s: %d cases (%.1f ops/case) in %.2fs = %.2f ms/case, %.0f cases/s\n", kind, n, float64(ops)/n, d.Seconds(), d.Seconds()*1000/n, n/d.Seconds())
	}
}
