package c09

import (
	"bytes"
	"context"
	"fmt"
	"runtime"
	"sort"

	"github.com/nspcc-dev/neo-go/pkg/core/storage"
	"pgregory.net/rapid"
	"verifharness/vt"
)

// IterCase: how the VM uses the store during one transaction. A stack of PRIVATE cache layers (transaction layer,
// one isolation layer per call made from a TRY block) over a shared store; System.Storage.Find opens an asynchronous
// iterator (SeekAsync) on the top layer and the contract keeps it; the owner then goes on: it writes, a returning call
// merges its layer into the one below (Persist of a private layer), a failing call drops its layer; the iterator is
// consumed later. Everything is done by ONE goroutine besides the iterator's own producer, so the answer has to be a
// function of the history, not of the moment the producer goroutine happens to be scheduled: the iterator yields the
// content visible at the moment it was opened (the top layer is documented to be snapshotted at that moment).
// The case is run under GOMAXPROCS=1 (the producer cannot start before the consumer blocks) or unchanged.
type IterCase struct {
	Layers int       `json:"layers"` // private layers above the shared one (1..4)
	Pre    []IterW   `json:"pre"`    // writes before the iterator is opened
	Post   []IterW   `json:"post"`   // what the owner does between opening and consuming it
	Q      IterQuery `json:"q"`
	Procs1 bool      `json:"procs1"` // run with GOMAXPROCS=1
	Take   int       `json:"take"`   // consume this many items, then do the rest of Post, then drain (0: all at once)
}

// IterW is one action of the owner: a write into layer L (0 = shared bottom, 1..Layers private), or, when Merge is
// set, the top private layer is merged into the one below and a fresh private layer is opened on top of that (a call
// that returned and another call that started), or, when Drop is set, the top layer is thrown away and replaced.
type IterW struct {
	L     int      `json:"l"`
	K     vt.Bytes `json:"k"`
	V     vt.Bytes `json:"v,omitempty"`
	Del   bool     `json:"del,omitempty"`
	Merge bool     `json:"merge,omitempty"`
	Drop  bool     `json:"drop,omitempty"`
}

type IterQuery struct {
	Prefix    vt.Bytes `json:"prefix"`
	Start     vt.Bytes `json:"start,omitempty"`
	Backwards bool     `json:"backwards,omitempty"`
	Cut       bool     `json:"cut,omitempty"`
}

var iterPfx = byte(0x70) // STStorage

func genIterKey(t *rapid.T) vt.Bytes {
	n := rapid.IntRange(1, 3).Draw(t, "klen")
	k := []byte{iterPfx}
	for i := 0; i < n; i++ {
		k = append(k, byte(rapid.SampledFrom([]int{0x61, 0x62, 0x63, 0xff}).Draw(t, "kb")))
	}
	return k
}

func genIterW(t *rapid.T, layers int, post bool) IterW {
	w := IterW{L: rapid.IntRange(0, layers).Draw(t, "layer"), K: genIterKey(t)}
	switch rapid.IntRange(0, 9).Draw(t, "wkind") {
	case 0, 1:
		w.Del = true
	case 2, 3:
		if post {
			w.Merge = true
		} else {
			w.V = []byte{byte(rapid.IntRange(1, 250).Draw(t, "val"))}
		}
	case 4:
		if post {
			w.Drop = true
		} else {
			w.V = []byte{}
		}
	default:
		w.V = []byte{byte(rapid.IntRange(1, 250).Draw(t, "val"))}
	}
	return w
}

func genIter(t *rapid.T) IterCase {
	c := IterCase{Layers: rapid.IntRange(1, 4).Draw(t, "layers"), Procs1: rapid.IntRange(0, 3).Draw(t, "procs1") != 0}
	c.Pre = rapid.SliceOfN(rapid.Custom(func(t *rapid.T) IterW { return genIterW(t, c.Layers, false) }), 2, 14).Draw(t, "pre")
	c.Post = rapid.SliceOfN(rapid.Custom(func(t *rapid.T) IterW { return genIterW(t, c.Layers, true) }), 1, 8).Draw(t, "post")
	c.Q.Prefix = []byte{iterPfx}
	if rapid.Bool().Draw(t, "longprefix") {
		c.Q.Prefix = append(c.Q.Prefix, 0x61)
	}
	if rapid.IntRange(0, 2).Draw(t, "withstart") == 0 {
		c.Q.Start = []byte{byte(rapid.SampledFrom([]int{0x61, 0x62, 0x63}).Draw(t, "start"))}
	}
	c.Q.Backwards = rapid.Bool().Draw(t, "backwards")
	c.Q.Cut = rapid.Bool().Draw(t, "cut")
	c.Take = rapid.IntRange(0, 2).Draw(t, "take")
	return c
}

func checkIter(c IterCase, o *vt.Obs) error {
	if c.Layers < 1 || c.Layers > 6 || len(c.Q.Prefix) == 0 {
		return nil
	}
	if c.Procs1 {
		old := runtime.GOMAXPROCS(1)
		defer runtime.GOMAXPROCS(old)
		o.Label("gomaxprocs-1")
	}
	bottom := storage.NewMemCachedStore(storage.NewMemoryStore()) // the node's shared write cache
	st := []*storage.MemCachedStore{bottom}
	model := []map[string][]byte{{}} // nil value = tombstone
	for i := 1; i <= c.Layers; i++ {
		st = append(st, storage.NewPrivateMemCachedStore(st[i-1]))
		model = append(model, map[string][]byte{})
	}
	opened := false
	apply := func(w IterW) {
		top := len(st) - 1
		switch {
		case w.Merge && top >= 2:
			// the call returned: its layer goes into the caller's, the next call gets a fresh one
			_, _ = st[top].Persist()
			for k, v := range model[top] {
				model[top-1][k] = v
			}
			st[top] = storage.NewPrivateMemCachedStore(st[top-1])
			model[top] = map[string][]byte{}
			o.Label("merge-into-lower-private-layer")
		case w.Merge:
			// only one private layer: nothing below it but the shared store (block level), which a transaction never merges into
		case w.Drop && top >= 1:
			st[top] = storage.NewPrivateMemCachedStore(st[top-1])
			model[top] = map[string][]byte{}
		case w.Drop:
		default:
			l := w.L % len(st)
			if l == 0 {
				l = min(1, top) // during a transaction nobody writes below the private layers
			}
			if opened {
				l = top // ... and once calls are nested only the innermost layer is written (lower ones change by merges)
			}
			if w.Del {
				st[l].Delete(w.K)
				model[l][string(w.K)] = nil
			} else {
				st[l].Put(w.K, w.V)
				model[l][string(w.K)] = bytes.Clone(w.V)
				if model[l][string(w.K)] == nil {
					model[l][string(w.K)] = []byte{}
				}
			}
		}
	}
	// a little committed content at the bottom
	for i, w := range c.Pre {
		if i%3 == 0 && !w.Del && !w.Merge && !w.Drop {
			bottom.Put(w.K, w.V)
			model[0][string(w.K)] = bytes.Clone(append([]byte{}, w.V...))
			continue
		}
		apply(w)
	}
	// expected answer: the merged view at the moment the iterator is opened
	view := map[string][]byte{}
	for l := 0; l < len(model); l++ {
		for k, v := range model[l] {
			if v == nil {
				delete(view, k)
			} else {
				view[k] = v
			}
		}
	}
	var want []kv
	pfx, start := string(c.Q.Prefix), string(c.Q.Start)
	for k, v := range view {
		if len(k) < len(pfx) || k[:len(pfx)] != pfx {
			continue
		}
		rest := k[len(pfx):]
		if start != "" {
			if !c.Q.Backwards && rest < start {
				continue
			}
			if c.Q.Backwards && rest > start && !(len(rest) >= len(start) && rest[:len(start)] == start) {
				continue
			}
		}
		key := k
		if c.Q.Cut {
			key = rest
		}
		want = append(want, kv{key, v})
	}
	sort.Slice(want, func(i, j int) bool {
		a, b := want[i].k, want[j].k
		if c.Q.Cut { // order is the order of the full keys
			a, b = pfx+a, pfx+b
		}
		if c.Q.Backwards {
			return a > b
		}
		return a < b
	})

	ctx, cancel := context.WithCancel(context.Background())
	ch := st[len(st)-1].SeekAsync(ctx, storage.SeekRange{Prefix: c.Q.Prefix, Start: c.Q.Start, Backwards: c.Q.Backwards}, c.Q.Cut)
	defer func() {
		cancel()
		for range ch { //nolint:revive // the producer must be gone before the case ends
		}
	}()
	opened = true
	var got []kv
	post := c.Post
	if c.Take > 0 && len(post) > 1 {
		// part of the owner's work happens before the first item is consumed, the rest after `Take` items
		half := len(post) / 2
		for _, w := range post[:half] {
			apply(w)
		}
		post = post[half:]
		for i := 0; i < c.Take; i++ {
			e, ok := <-ch
			if !ok {
				break
			}
			got = append(got, kv{string(e.Key), bytes.Clone(e.Value)})
		}
		o.Label("owner-works-between-items")
	}
	for _, w := range post {
		apply(w)
	}
	for e := range ch {
		got = append(got, kv{string(e.Key), bytes.Clone(e.Value)})
	}
	o.Units(len(got))
	if len(got) != len(want) {
		return fmt.Errorf("iterator opened on %d private layers (GOMAXPROCS=1: %v), consumed after the owner went on: %d items %s, the content visible when it was opened is %d items %s",
			c.Layers, c.Procs1, len(got), fmtKVs(got), len(want), fmtKVs(want))
	}
	for i := range got {
		if got[i].k != want[i].k || !bytes.Equal(got[i].v, want[i].v) {
			return fmt.Errorf("iterator opened on %d private layers (GOMAXPROCS=1: %v), consumed after the owner went on: item %d is %x=%x, the content visible when it was opened has %x=%x there (got %s, want %s)",
				c.Layers, c.Procs1, i, got[i].k, got[i].v, want[i].k, want[i].v, fmtKVs(got), fmtKVs(want))
		}
	}
	if c.Layers >= 2 && len(want) > 0 {
		o.NonTrivial()
	}
	return nil
}

func init() {
	vt.Register("iterator", 0.3, genIter, checkIter)
}
