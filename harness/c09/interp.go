package c09

import (
	"bytes"
	"context"
	"errors"
	"fmt"
	"os"
	"path/filepath"
	"sort"
	"strings"

	"github.com/nspcc-dev/neo-go/pkg/core/dao"
	"github.com/nspcc-dev/neo-go/pkg/core/storage"
	"github.com/nspcc-dev/neo-go/pkg/core/storage/dbconfig"
	"verifharness/vt"
)

// KnownStaleCut is the known_findings.json key of the SeekAsync(cutPrefix) stale-key collision (see report).
const KnownStaleCut = "seekasync-cut-stale-mem-key"

// runner interprets an op list against real stores and the model.
type runner struct {
	c    *Case
	o    *vt.Obs
	kind string
	dir  string

	base  storage.Store // what the bottom layer sits on (the gate in gated mode)
	raw   storage.Store // the real backend
	gate  *gateStore
	st    []*storage.MemCachedStore
	priv  []bool
	m     model
	trace []string
	doTr  bool

	inWindow  bool
	winWrites map[string][]byte
	winSnap   map[string][]byte
	tri       bool // tridiff: harness restrictions of any backend apply to all of them (same transcript)

	firsts []byte // distinct first bytes of the pool (for audits)

	// class flags
	sawNT, sawMerge, sawTomb, sawExt, sawBackStart, sawCut, sawCancel, sawCB, sawMidFlush bool
	sawPP, sawDepth, sawGCBase, sawGCLayer, sawPriv, sawPersistPriv, sawWindow, sawSpan   bool
	sawFailWin, sawFailPlain, rewStor, rewMem                                             bool
	sawWindowQ, sawDao, sawEmptyVal                                                       bool
	excluded                                                                              bool
	queries, maxStack                                                                     int
}

// tmpBase: where the per-case databases live (removed at the end of every case). C09_TMP overrides; otherwise
// /dev/shm when it is usable (the property is about answers, not durability: fsync cost only slows the search
// down 5x), else the default temp dir (TMPDIR).
func tmpBase() string {
	if d := os.Getenv("C09_TMP"); d != "" {
		return d
	}
	if os.Getenv("TMPDIR") == "" {
		if fi, err := os.Stat("/dev/shm"); err == nil && fi.IsDir() {
			if f, err := os.CreateTemp("/dev/shm", "c09w"); err == nil {
				f.Close()
				os.Remove(f.Name())
				return "/dev/shm"
			}
		}
	}
	return ""
}

func openBackend(kind string) (storage.Store, string, error) {
	switch kind {
	case "mem":
		return storage.NewMemoryStore(), "", nil
	case "bolt":
		dir, err := os.MkdirTemp(tmpBase(), "c09")
		if err != nil {
			return nil, "", err
		}
		s, err := storage.NewBoltDBStore(dbconfig.BoltDBOptions{FilePath: filepath.Join(dir, "bolt.db")})
		if err != nil {
			os.RemoveAll(dir)
			return nil, "", err
		}
		return s, dir, nil
	case "leveldb":
		dir, err := os.MkdirTemp(tmpBase(), "c09")
		if err != nil {
			return nil, "", err
		}
		s, err := storage.NewLevelDBStore(dbconfig.LevelDBOptions{DataDirectoryPath: filepath.Join(dir, "ldb")})
		if err != nil {
			os.RemoveAll(dir)
			return nil, "", err
		}
		if vt.Known(KnownLevelDBReuse) {
			// KNOWN FINDING (exclusion, see ballast.go)
			return &ballastStore{Store: s}, dir, nil
		}
		return s, dir, nil
	}
	return nil, "", fmt.Errorf("unknown backend %q", kind)
}

func newRunner(c *Case, kind string, o *vt.Obs, gated, doTrace bool) (*runner, error) {
	if len(c.Keys) == 0 || len(c.Stack) == 0 || len(c.Stack) > maxLayers {
		return nil, fmt.Errorf("malformed case: %d keys, %d layers", len(c.Keys), len(c.Stack))
	}
	for _, k := range c.Keys {
		if len(k) == 0 {
			return nil, errors.New("malformed case: empty key")
		}
	}
	raw, dir, err := openBackend(kind)
	if err != nil {
		return nil, fmt.Errorf("infrastructure: cannot open %s backend: %w", kind, err)
	}
	r := &runner{c: c, o: o, kind: kind, dir: dir, raw: raw, base: raw, doTr: doTrace}
	// The gate is always in place (pass-through unless armed): the gated check uses it for the owned Persist
	// window, every check for injected backend failures.
	_ = gated
	r.gate = newGate(raw)
	r.base = r.gate
	r.m.base = map[string][]byte{}
	for i, p := range c.Stack {
		r.push(p && i == len(c.Stack)-1)
	}
	seen := map[byte]bool{}
	for _, k := range c.Keys {
		if !seen[k[0]] {
			seen[k[0]] = true
			r.firsts = append(r.firsts, k[0])
		}
	}
	return r, nil
}

func (r *runner) close() {
	_ = r.raw.Close()
	if r.dir != "" {
		_ = os.RemoveAll(r.dir)
	}
}

func (r *runner) top() int { return len(r.st) - 1 }

func (r *runner) lower(i int) storage.Store {
	if i == 0 {
		return r.base
	}
	return r.st[i-1]
}

func (r *runner) push(private bool) {
	var s *storage.MemCachedStore
	low := r.lower(len(r.st))
	if private {
		s = storage.NewPrivateMemCachedStore(low)
		r.sawPriv = true
	} else {
		s = storage.NewMemCachedStore(low)
	}
	r.st = append(r.st, s)
	r.priv = append(r.priv, private)
	r.m.layers = append(r.m.layers, map[string][]byte{})
	if len(r.st) > r.maxStack {
		r.maxStack = len(r.st)
	}
}

func (r *runner) pop() {
	n := r.top()
	r.st, r.priv, r.m.layers = r.st[:n], r.priv[:n], r.m.layers[:n]
	if len(r.st) == 0 {
		r.push(false)
	}
}

// layerAt resolves an op's At to a cache layer index.
func (r *runner) layerAt(at int) int {
	if at < 0 {
		at = -at
	}
	return r.top() - at%len(r.st)
}

// storeAt resolves an op's At to a layer index or -1 (backend).
func (r *runner) storeAt(at int) int {
	if at < 0 {
		return -1
	}
	n := len(r.st) + 1
	i := r.top() - at%n
	return i // -1 = backend
}

func (r *runner) key(i int) []byte {
	if i < 0 {
		i = -i
	}
	return r.c.Keys[i%len(r.c.Keys)]
}

func val(v vt.Bytes) []byte {
	// stored values are never nil (nil means deletion inside the stores); empty values are legal
	return append([]byte{}, v...)
}

// mset records a write into layer i of the model.
func (r *runner) mset(i int, k string, v []byte) {
	r.m.layers[i][k] = v
	if r.inWindow && i == 0 {
		r.winWrites[k] = v
	}
}

func (r *runner) mapply(i int, k string, v []byte) {
	if i < 0 {
		if v == nil {
			delete(r.m.base, k)
		} else {
			r.m.base[k] = v
		}
		return
	}
	r.mset(i, k, v)
}

func (r *runner) mflush(i int) {
	for k, v := range r.m.layers[i] {
		r.mapply(i-1, k, v)
	}
	r.m.layers[i] = map[string][]byte{}
}

func (r *runner) write(i int, kv KVi) {
	k := r.key(kv.K)
	if kv.Del {
		r.st[i].Delete(k)
		r.mset(i, string(k), nil)
	} else {
		v := val(kv.V)
		if len(v) == 0 {
			r.sawEmptyVal = true
		}
		r.st[i].Put(k, v)
		r.mset(i, string(k), v)
	}
}

func storeOf(r *runner, i int) storage.Store {
	if i < 0 {
		return r.base
	}
	return r.st[i]
}

func fmtKVs(l []kv) string {
	var b strings.Builder
	b.WriteByte('[')
	for i, e := range l {
		if i > 0 {
			b.WriteByte(' ')
		}
		fmt.Fprintf(&b, "%x=%x", e.k, e.v)
	}
	b.WriteByte(']')
	return b.String()
}

func cmpLists(what string, got, want []kv) error {
	if len(got) != len(want) {
		return fmt.Errorf("%s: got %d items %s, want %d items %s", what, len(got), fmtKVs(got), len(want), fmtKVs(want))
	}
	for i := range got {
		if got[i].k != want[i].k || !bytes.Equal(got[i].v, want[i].v) {
			return fmt.Errorf("%s: item %d is %x=%x, want %x=%x; got %s want %s", what, i, got[i].k, got[i].v, want[i].k, want[i].v, fmtKVs(got), fmtKVs(want))
		}
	}
	return nil
}

func (r *runner) tr(f string, a ...any) {
	if r.doTr {
		r.trace = append(r.trace, fmt.Sprintf(f, a...))
	}
}

func (r *runner) descQ(what string, at int, q *Q) string {
	return fmt.Sprintf("%s at layer %d of %d on %s (prefix=%x start=%x back=%v depth=%d)", what, at, len(r.st), r.kind, []byte(q.Prefix), []byte(q.Start), q.Back, q.Depth)
}

func fmtQ(q *Q) string {
	return fmt.Sprintf("(prefix=%x start=%x back=%v depth=%d)", []byte(q.Prefix), []byte(q.Start), q.Back, q.Depth)
}

func rngOf(q *Q) storage.SeekRange {
	return storage.SeekRange{Prefix: bytes.Clone(q.Prefix), Start: bytes.Clone(q.Start), Backwards: q.Back, SearchDepth: q.Depth}
}

func (r *runner) noteQ(at int, q *Q) {
	r.queries++
	r.o.Units(1)
	cl := r.m.classify(at, q.Depth, q)
	if cl.sources >= 2 {
		r.sawMerge = true
	}
	if cl.tombHides {
		r.sawTomb = true
	}
	if cl.extStart {
		r.sawExt = true
	}
	if q.Back && len(q.Start) > 0 {
		r.sawBackStart = true
	}
	if q.Depth > 0 {
		r.sawDepth = true
	}
	if cl.sources >= 2 && cl.tombHides && cl.extStart {
		r.sawNT = true
	}
}

// getCheck compares one point read.
func (r *runner) getCheck(at int, k []byte) error {
	return r.getCheckIn(r.m.view(at, 0), at, k)
}

func (r *runner) getCheckIn(view map[string][]byte, at int, k []byte) error {
	got, err := storeOf(r, at).Get(k)
	want, ok := view[string(k)]
	r.tr("get %d %x -> %x %v", at, k, got, err == nil)
	switch {
	case ok && err != nil:
		return fmt.Errorf("Get(%x) at layer %d of %d on %s: live key (value %x) gives error %v", k, at, len(r.st), r.kind, want, err)
	case ok && !bytes.Equal(got, want):
		return fmt.Errorf("Get(%x) at layer %d of %d on %s = %x, want %x", k, at, len(r.st), r.kind, got, want)
	case !ok && err == nil:
		return fmt.Errorf("Get(%x) at layer %d of %d on %s: absent key gives value %x", k, at, len(r.st), r.kind, got)
	case !ok && !errors.Is(err, storage.ErrKeyNotFound):
		return fmt.Errorf("Get(%x) at layer %d of %d on %s: absent key gives unexpected error %v", k, at, len(r.st), r.kind, err)
	}
	return nil
}

// seekCheck runs a synchronous Seek at store at (optionally through dao.Simple) and compares with the model.
// cws are executed through the same store from inside the callback.
func (r *runner) seekCheck(at int, q *Q, stop int, cws []CW, viaDao bool, id int32) error {
	fq := *q // the full-key query
	if viaDao {
		fq.Prefix = append(daoKeyPrefix(r.c.DaoPfx, id), q.Prefix...)
	}
	r.noteQ(at, &fq)
	want := rangeOf(r.m.view(at, fq.Depth), &fq)
	if viaDao {
		for i := range want {
			want[i].k = want[i].k[len(fq.Prefix):]
		}
	}
	if stop > 0 && len(want) > stop {
		want = want[:stop]
	}
	var got []kv
	wrote := false
	cb := func(k, v []byte) bool {
		if at >= 0 {
			for _, w := range cws {
				if w.Item == len(got) {
					r.write(at, w.KVi)
					wrote = true
				}
			}
		}
		got = append(got, kv{string(k), bytes.Clone(v)})
		return stop == 0 || len(got) < stop
	}
	what := "Seek"
	if viaDao {
		what = fmt.Sprintf("dao.Seek(id=%d)", id)
		d := &dao.Simple{Version: dao.Version{StoragePrefix: storage.KeyPrefix(r.c.DaoPfx)}, Store: r.st[at]}
		d.Seek(id, rngOf(q), cb)
		r.sawDao = true
	} else {
		storeOf(r, at).Seek(rngOf(q), cb)
	}
	if wrote {
		r.sawCB = true
	}
	r.tr("%s at %d %s -> %s", what, at, fmtQ(q), fmtKVs(got))
	return cmpLists(r.descQ(what, at, q), got, want)
}

// privateDaoSeek scans through a private DAO stacked on layer at; for every item the callback reads (through the
// same DAO) an item of another contract and the found item itself, as a contract iterating its storage does.
func (r *runner) privateDaoSeek(at int, q *Q, stop int, id int32) error {
	fq := *q
	fq.Prefix = append(daoKeyPrefix(r.c.DaoPfx, id), q.Prefix...)
	r.noteQ(at, &fq)
	view := r.m.view(at, fq.Depth)
	want := rangeOf(view, &fq)
	for i := range want {
		want[i].k = want[i].k[len(fq.Prefix):]
	}
	if stop > 0 && len(want) > stop {
		want = want[:stop]
	}
	gview := r.m.view(at, 0)
	base := &dao.Simple{Version: dao.Version{StoragePrefix: storage.KeyPrefix(r.c.DaoPfx)}, Store: r.st[at]}
	pd := base.GetPrivate()
	r.sawDao = true
	var got []kv
	var nested error
	rng := rngOf(q)
	if rng.SearchDepth > 0 {
		rng.SearchDepth++ // the private layer on top is one more layer to go through
	}
	pd.Seek(id, rng, func(k, v []byte) bool {
		got = append(got, kv{string(k), bytes.Clone(v)})
		for _, oid := range []int32{id, id - 3, id + 1} { // the last read leaves another contract's prefix in the DAO's key buffer
			key := append(bytes.Clone(q.Prefix), k...)
			if oid != id {
				key = []byte{byte(len(got))}
			}
			g := pd.GetStorageItem(oid, key)
			w, ok := gview[string(append(daoKeyPrefix(r.c.DaoPfx, oid), key...))]
			if nested == nil && (ok != (g != nil) || ok && !bytes.Equal(g, w)) {
				nested = fmt.Errorf("dao.GetStorageItem(%d,%x) from inside the scan = %x (nil=%v), want %x (present=%v)", oid, key, []byte(g), g == nil, w, ok)
			}
		}
		return stop == 0 || len(got) < stop
	})
	r.tr("private dao.Seek(id=%d) at %d %s -> %s", id, at, fmtQ(q), fmtKVs(got))
	if nested != nil {
		return nested
	}
	return cmpLists(r.descQ(fmt.Sprintf("private dao.Seek(id=%d) with nested reads", id), at, q), got, want)
}

// flushLayer flushes layer i of the real stack and of the model. mode: 0 Persist, 1 PersistSync, 2 PersistPrivate.
func (r *runner) flushLayer(i, mode int) error {
	var err error
	if r.priv[i] {
		// a private layer is the top one; it is disposed after being flushed
		if mode == 2 && i > 0 {
			r.st[i-1].PersistPrivate(r.st[i])
			r.sawPersistPriv = true
		} else {
			_, err = r.st[i].Persist()
		}
		if err != nil {
			return fmt.Errorf("Persist of private layer %d failed: %v", i, err)
		}
		r.mflush(i)
		r.pop()
		return nil
	}
	if mode == 1 {
		_, err = r.st[i].PersistSync()
	} else {
		_, err = r.st[i].Persist()
	}
	if err != nil {
		return fmt.Errorf("Persist(mode %d) of layer %d failed: %v", mode, i, err)
	}
	r.mflush(i)
	return nil
}

// asyncCheck runs SeekAsync at cache layer at and compares what is received with the snapshot at call time.
// The channel is always cancelled and drained before returning (no goroutine outlives the check). If mid is non-nil
// it is called once, after the first received item (or after the end of an empty iteration): the window span uses
// it to release the gated Persist while the iteration is still in flight.
func (r *runner) asyncCheck(at int, op *Op, viaDao bool, mid func() error) error {
	q := op.Q
	fq := *q
	cut := op.Cut
	if viaDao {
		fq.Prefix = append(daoKeyPrefix(r.c.DaoPfx, op.ID), q.Prefix...)
		cut = true
	}
	r.noteQ(at, &fq)
	want := rangeOf(r.m.view(at, fq.Depth), &fq)
	collide := ""
	if cut {
		r.sawCut = true
		own, lower := r.m.ownAndLower(at, fq.Depth)
		if r.inWindow && at == 0 {
			// bottom.Persist is in flight: the bottom layer's own map is the fresh one, the swapped-out content
			// (tempstore) is one level further down
			own = r.winWrites
			lower = cloneMap(r.m.base)
			for k, v := range r.winSnap {
				if v == nil {
					delete(lower, k)
				} else {
					lower[k] = v
				}
			}
		}
		collide = staleCutCollision(own, lower, &fq)
		if collide != "" {
			r.sawPP = true
		}
		if collide != "" && vt.Known(KnownStaleCut) {
			// KNOWN FINDING (excluded shape): performSeek drops this lower key; keep searching behind it
			r.excluded = true
			w2 := want[:0:0]
			for _, e := range want {
				if e.k != collide {
					w2 = append(w2, e)
				}
			}
			want = w2
		}
		for i := range want {
			want[i].k = want[i].k[len(fq.Prefix):]
		}
	}
	ctx, cancel := context.WithCancel(context.Background())
	var ch chan storage.KeyValue
	what := fmt.Sprintf("SeekAsync(cut=%v)", cut)
	if viaDao {
		what = fmt.Sprintf("dao.SeekAsync(id=%d)", op.ID)
		d := &dao.Simple{Version: dao.Version{StoragePrefix: storage.KeyPrefix(r.c.DaoPfx)}, Store: r.st[at]}
		ch = d.SeekAsync(ctx, op.ID, rngOf(q))
		r.sawDao = true
	} else {
		ch = r.st[at].SeekAsync(ctx, rngOf(q), cut)
	}
	defer func() {
		cancel()
		for range ch { //nolint:revive // drain until the producer goroutine has closed the channel
		}
	}()
	var got []kv
	cancelled := false
	// A depth-limited answer is layer-relative (a flush legitimately moves content out of the consulted layers),
	// so the mid-iteration flush is only combined with full-depth queries.
	flushed := op.FlushAt == 0 || fq.Depth != 0
	midDone := mid == nil
	var ferr error
	step := func() {
		// actions due before item number len(got) is consumed.
		// Writes are not combined with a mid-iteration flush: the lower stores are snapshotted by the producer
		// goroutine, so a flush that carries NEW writes down may or may not be seen (both are legitimate for
		// a reader concurrent with a writer); "snapshot at seek start" is only claimed for writes alone and
		// "flush changes nothing" for flushes alone.
		for _, w := range op.CW {
			if w.Item == len(got) && (op.FlushAt == 0 || fq.Depth != 0) {
				r.write(at, w.KVi)
				r.sawCB = true
			}
		}
		if !flushed && op.FlushAfter == len(got) {
			flushed = true
			fi := at - (op.FlushAt-1)%(at+1)
			// A BoltDB read transaction stays open while the iteration is in flight; an Update from the same
			// goroutine could wait for it forever (mmap lock) - harness limitation, not a property clause.
			if !r.priv[fi] && !(fi == 0 && (r.kind == "bolt" || r.tri)) && !(r.inWindow && fi == 0) {
				ferr = r.flushLayer(fi, op.Mode&1)
				r.sawMidFlush = true
			}
		}
		if !midDone && len(got) >= 1 {
			midDone = true
			ferr = mid()
		}
	}
	for {
		step()
		if ferr != nil {
			return ferr
		}
		if op.Stop > 0 && len(got) == op.Stop && !cancelled {
			cancel()
			cancelled = true
			r.sawCancel = true
		}
		e, ok := <-ch
		if !ok {
			break
		}
		got = append(got, kv{string(e.Key), bytes.Clone(e.Value)})
	}
	if !midDone {
		if err := mid(); err != nil {
			return err
		}
	}
	shown := got
	if cancelled && len(shown) > op.Stop {
		// what arrives after the cancellation depends on the scheduler (the producer may have one more item in flight):
		// it is checked below (a prefix of the expected list) but it is not part of the answer the backends are
		// compared on (tridiff compares traces)
		shown = shown[:op.Stop]
	}
	r.tr("%s at %d %s cancel=%d -> %s", what, at, fmtQ(q), op.Stop, fmtKVs(shown))
	if cancelled {
		// after cancellation the producer may or may not deliver further items: whatever arrived must be a
		// prefix of the expected list that contains at least the items received before the cancel
		if len(got) < op.Stop || len(got) > len(want) {
			return fmt.Errorf("%s cancelled after %d: got %d items %s, want a prefix (>= %d items) of %s", r.descQ(what, at, q), op.Stop, len(got), fmtKVs(got), op.Stop, fmtKVs(want))
		}
		want = want[:len(got)]
	}
	return cmpLists(r.descQ(what, at, q), got, want)
}

// gcCheck runs SeekGC on one store (it works on that store only, by documentation).
func (r *runner) gcCheck(at int, op *Op) error {
	q := op.Q
	own := r.m.own(at)
	want := rangeOf(own, q)
	if op.Stop > 0 && len(want) > op.Stop {
		want = want[:op.Stop]
	}
	var got []kv
	err := storeOf(r, at).SeekGC(rngOf(q), func(k, v []byte) (bool, bool) {
		j := len(got)
		got = append(got, kv{string(k), bytes.Clone(v)})
		keep := op.Keep&(1<<(uint(j)%32)) != 0
		return keep, op.Stop == 0 || len(got) < op.Stop
	})
	if err != nil {
		return fmt.Errorf("%s failed: %v", r.descQ("SeekGC", at, q), err)
	}
	r.tr("SeekGC at %d %s -> %s", at, fmtQ(q), fmtKVs(got))
	if err := cmpLists(r.descQ("SeekGC", at, q), got, want); err != nil {
		return err
	}
	for j, e := range want {
		if op.Keep&(1<<(uint(j)%32)) == 0 {
			if at < 0 {
				delete(r.m.base, e.k)
			} else {
				delete(r.m.layers[at], e.k)
			}
		}
	}
	if at < 0 {
		r.sawGCBase = true
	} else {
		r.sawGCLayer = true
	}
	return nil
}

// audit compares the full-depth content seen from store at with the flat model: one forward and one backward
// scan per first byte of the pool plus a point read of every pool key.
func (r *runner) audit(at int, when string) error {
	view := r.m.view(at, 0)
	for _, fb := range r.firsts {
		for _, back := range []bool{false, true} {
			q := &Q{Prefix: vt.Bytes{fb}, Back: back}
			want := rangeOf(view, q)
			var got []kv
			storeOf(r, at).Seek(rngOf(q), func(k, v []byte) bool {
				got = append(got, kv{string(k), bytes.Clone(v)})
				return true
			})
			if err := cmpLists(fmt.Sprintf("audit %s: %s", when, r.descQ("Seek", at, q)), got, want); err != nil {
				return err
			}
		}
	}
	for _, k := range r.c.Keys {
		if err := r.getCheckIn(view, at, k); err != nil {
			return fmt.Errorf("audit %s: %w", when, err)
		}
	}
	return nil
}

func (r *runner) auditFrom(lo int, when string) error {
	for at := lo; at <= r.top(); at++ {
		if err := r.audit(at, when); err != nil {
			return err
		}
	}
	return nil
}

func (r *runner) splitBatch(items []KVi) (mem, stor map[string][]byte) {
	mem, stor = map[string][]byte{}, map[string][]byte{}
	for _, it := range items {
		k := r.key(it.K)
		var v []byte
		if !it.Del {
			v = val(it.V)
		}
		switch storage.KeyPrefix(k[0]) {
		case storage.STStorage, storage.STTempStorage:
			stor[string(k)] = v
		default:
			mem[string(k)] = v
		}
	}
	return
}

func (r *runner) daoAt(i int) *dao.Simple {
	r.sawDao = true
	return &dao.Simple{Version: dao.Version{StoragePrefix: storage.KeyPrefix(r.c.DaoPfx)}, Store: r.st[i]}
}

// exec interprets one op.
func (r *runner) exec(op *Op) error {
	switch op.Kind {
	case "put", "del":
		i := r.layerAt(op.At)
		r.write(i, KVi{K: op.K, V: op.V, Del: op.Kind == "del"})
		return r.audit(r.top(), "after "+op.Kind)
	case "delvis":
		i := r.layerAt(op.At)
		vis := rangeOf(r.m.view(i, 0), &Q{Prefix: vt.Bytes(r.c.Keys[0][:1])})
		if len(vis) == 0 {
			for _, fb := range r.firsts {
				if vis = rangeOf(r.m.view(i, 0), &Q{Prefix: vt.Bytes{fb}}); len(vis) > 0 {
					break
				}
			}
		}
		if len(vis) == 0 {
			return nil
		}
		k := vis[op.K%len(vis)].k
		r.st[i].Delete([]byte(k))
		r.mset(i, k, nil)
		return r.audit(r.top(), "after delvis")
	case "dput", "ddel":
		i := r.layerAt(op.At)
		full := append(daoKeyPrefix(r.c.DaoPfx, op.ID), op.DK...)
		if op.Kind == "dput" {
			v := val(op.V)
			r.daoAt(i).PutStorageItem(op.ID, op.DK, v)
			r.mset(i, string(full), v)
		} else {
			r.daoAt(i).DeleteStorageItem(op.ID, op.DK)
			r.mset(i, string(full), nil)
		}
		return r.audit(r.top(), "after "+op.Kind)
	case "dget":
		i := r.layerAt(op.At)
		full := append(daoKeyPrefix(r.c.DaoPfx, op.ID), op.DK...)
		got := r.daoAt(i).GetStorageItem(op.ID, op.DK)
		want, ok := r.m.view(i, 0)[string(full)]
		r.tr("dget %d %x -> %x %v", i, full, []byte(got), got != nil)
		if ok && (got == nil || !bytes.Equal(got, want)) {
			return fmt.Errorf("dao.GetStorageItem(%d,%x) at layer %d on %s = %x (nil=%v), want %x", op.ID, []byte(op.DK), i, r.kind, []byte(got), got == nil, want)
		}
		if !ok && got != nil {
			return fmt.Errorf("dao.GetStorageItem(%d,%x) at layer %d on %s = %x for an absent key", op.ID, []byte(op.DK), i, r.kind, []byte(got))
		}
		return nil
	case "batch":
		at := r.storeAt(op.At)
		if at >= 0 && r.priv[at] {
			at-- // PutChangeSet into a private layer is not a usage of the code base; aim below it
		}
		if r.inWindow && at < 0 {
			at = 0
		}
		mem, stor := r.splitBatch(op.Items)
		// the model is updated from copies taken before the call: the callee owns nothing of ours afterwards
		all := map[string][]byte{}
		for k, v := range mem {
			all[k] = v
		}
		for k, v := range stor {
			all[k] = v
		}
		if err := storeOf(r, at).PutChangeSet(mem, stor); err != nil {
			return fmt.Errorf("PutChangeSet at store %d on %s failed: %v", at, r.kind, err)
		}
		for k, v := range all {
			r.mapply(at, k, v)
		}
		return r.auditFrom(at, "after batch")
	case "flush":
		i := r.layerAt(op.At)
		if r.inWindow && i == 0 {
			return nil // bottom.Persist is in flight: a second one would wait for plock
		}
		if err := r.flushLayer(i, op.Mode); err != nil {
			return err
		}
		lo := i - 1
		if lo >= r.top() {
			lo = r.top()
		}
		return r.auditFrom(lo, fmt.Sprintf("after flush of layer %d (mode %d)", i, op.Mode))
	case "push":
		if len(r.st) >= maxLayers || r.priv[r.top()] {
			return nil
		}
		r.push(op.Priv)
		return r.audit(r.top(), "after push")
	case "gc":
		if r.inWindow {
			return nil
		}
		at := r.storeAt(op.At)
		if err := r.gcCheck(at, op); err != nil {
			return err
		}
		return r.auditFrom(at, "after SeekGC")
	case "get":
		return r.getCheck(r.storeAt(op.At), r.key(op.K))
	case "seek":
		q := *op.Q
		if r.inWindow {
			q.Depth = 0
			r.sawWindowQ = true
		}
		return r.seekCheck(r.storeAt(op.At), &q, op.Stop, op.CW, false, 0)
	case "dseek":
		q := *op.Q
		if r.inWindow {
			q.Depth = 0
			r.sawWindowQ = true
		}
		if op.Priv {
			return r.privateDaoSeek(r.layerAt(op.At), &q, op.Stop, op.ID)
		}
		return r.seekCheck(r.layerAt(op.At), &q, op.Stop, op.CW, true, op.ID)
	case "async", "dasync":
		o2 := *op
		q := *op.Q
		o2.Q = &q
		if r.inWindow {
			q.Depth = 0
			r.sawWindowQ = true
		}
		return r.asyncCheck(r.layerAt(op.At), &o2, op.Kind == "dasync", nil)
	case "window":
		return r.window(op)
	case "failflush":
		// a flush of the (shared) bottom layer whose backend write fails: Persist/PersistSync reports the error,
		// no answer changes, nothing reaches the backend
		if r.inWindow || r.priv[0] {
			return nil
		}
		pending := len(r.m.layers[0])
		r.gate.failOnce = true
		var err error
		if op.Mode&1 == 1 {
			_, err = r.st[0].PersistSync()
		} else {
			_, err = r.st[0].Persist()
		}
		r.gate.failOnce = false
		if pending == 0 {
			if err != nil {
				return fmt.Errorf("Persist of an empty bottom layer failed: %v", err)
			}
			return nil
		}
		if !errors.Is(err, errInjected) {
			return fmt.Errorf("Persist(mode %d) of the bottom layer returned %v although PutChangeSet of the backend failed", op.Mode&1, err)
		}
		r.sawFailPlain = true
		return r.auditFrom(-1, "after a failed flush of the bottom layer")
	case "rewrite":
		// overwrite / delete, on the bottom layer, a key of the batch that is being flushed right now (inside a window);
		// K even aims at the STStorage/STTempStorage map, odd at the other one
		if !r.inWindow || len(r.winSnap) == 0 {
			return nil
		}
		var a, b []string
		for k := range r.winSnap {
			if k[0] == byte(storage.STStorage) || k[0] == byte(storage.STTempStorage) {
				a = append(a, k)
			} else {
				b = append(b, k)
			}
		}
		if op.K%2 == 1 {
			a, b = b, a
		}
		if len(a) == 0 {
			a = b
		}
		sort.Strings(a)
		k := a[(op.K/2)%len(a)]
		if op.Del {
			r.st[0].Delete([]byte(k))
			r.mset(0, k, nil)
		} else {
			v := val(op.V)
			r.st[0].Put([]byte(k), v)
			r.mset(0, k, v)
		}
		if k[0] == byte(storage.STStorage) || k[0] == byte(storage.STTempStorage) {
			r.rewStor = true
		} else {
			r.rewMem = true
		}
		return r.audit(r.top(), "after rewriting a key of the batch in flight")
	}
	return fmt.Errorf("unknown op kind %q", op.Kind)
}

func (r *runner) run() error {
	for i := range r.c.Ops {
		if err := r.exec(&r.c.Ops[i]); err != nil {
			return fmt.Errorf("op %d (%s): %w", i, r.c.Ops[i].Kind, err)
		}
	}
	if err := r.auditFrom(-1, "at the end"); err != nil {
		return err
	}
	// Final: flush everything down (top first) and audit again - flushing changes no answer at the top.
	topView := r.m.view(r.top(), 0)
	for {
		i := r.top()
		if i == 0 && !r.priv[0] && len(r.m.layers[0]) == 0 {
			break
		}
		wasPriv := r.priv[i]
		if err := r.flushLayer(i, 0); err != nil {
			return err
		}
		if !wasPriv {
			if i == 0 {
				break
			}
			// a flushed shared layer stays in place (empty); drop it from the harness view to reach the lower ones
			r.st, r.priv, r.m.layers = r.st[:i], r.priv[:i], r.m.layers[:i]
		}
		// a private layer was disposed by flushLayer (an empty shared one is re-created when the stack got empty)
	}
	if err := r.auditFrom(-1, "after the final flush of all layers"); err != nil {
		return err
	}
	final := r.m.view(-1, 0)
	if len(final) != len(topView) {
		return fmt.Errorf("model inconsistency: %d keys at the top before the final flush, %d in the backend after it", len(topView), len(final))
	}
	return nil
}

func (r *runner) labels() {
	o := r.o
	o.Label("backend=" + r.kind)
	if _, ok := r.raw.(*ballastStore); ok {
		o.Label("known:leveldb-ballast")
		o.Excluded()
	}
	o.Labelf("maxstack=%d", r.maxStack)
	flag := func(b bool, l string) {
		if b {
			o.Label(l)
		}
	}
	flag(r.sawMerge, "merge>=2-stores")
	flag(r.sawTomb, "tombstone-hides-lower")
	flag(r.sawExt, "key-extends-prefix+start")
	flag(r.sawBackStart, "backwards+start")
	flag(r.sawCut, "async-cut")
	flag(r.sawCancel, "async-cancel")
	flag(r.sawCB, "write-in-callback")
	flag(r.sawMidFlush, "flush-mid-iteration")
	flag(r.sawPP, "cut-key-collides-with-lower-key")
	flag(r.sawDepth, "depth-limited")
	flag(r.sawGCBase, "gc-backend")
	flag(r.sawGCLayer, "gc-layer")
	flag(r.sawPriv, "private-layer")
	flag(r.sawPersistPriv, "persist-private")
	flag(r.sawWindow, "persist-window")
	flag(r.sawWindowQ, "query-in-window")
	flag(r.sawSpan, "iteration-spans-window-end")
	flag(r.sawFailPlain, "failed-flush-plain")
	flag(r.sawFailWin, "failed-flush-in-window")
	flag(r.sawFailWin && (r.rewStor || r.rewMem), "failed-flush-with-overwrites-of-batch-keys")
	flag(r.sawFailWin && r.rewStor && r.rewMem, "failed-flush-overwrites-in-both-maps")
	flag(r.sawDao, "via-dao")
	flag(r.sawEmptyVal, "empty-value")
	if r.excluded {
		o.Excluded()
	}
	if r.sawNT {
		o.NonTrivial()
	}
}

func checkLayers(c Case, o *vt.Obs) error {
	r, err := newRunner(&c, c.Backend, o, false, false)
	if err != nil {
		return err
	}
	defer r.close()
	if err := r.run(); err != nil {
		return err
	}
	r.labels()
	return nil
}

// checkTri executes the same case on all three backends: identical transcripts (every answer of every query),
// and each of them equal to the model.
func checkTri(c Case, o *vt.Obs) error {
	var ref []string
	for bi, kind := range []string{"mem", "bolt", "leveldb"} {
		var ob *vt.Obs
		if bi == 0 {
			ob = o
		} else {
			ob = &vt.Obs{}
		}
		r, err := newRunner(&c, kind, ob, false, true)
		if err != nil {
			return err
		}
		r.tri = true
		rerr := r.run()
		r.close()
		if bi == 0 {
			ref = r.trace
			r.kind = "tri"
			r.labels()
		} else {
			n := min(len(ref), len(r.trace))
			for i := 0; i < n; i++ {
				if ref[i] != r.trace[i] {
					return fmt.Errorf("backends disagree on answer %d: mem gives %q, %s gives %q", i, ref[i], kind, r.trace[i])
				}
			}
			if rerr == nil && len(ref) != len(r.trace) {
				return fmt.Errorf("backends disagree: mem produced %d answers, %s %d", len(ref), kind, len(r.trace))
			}
		}
		if rerr != nil {
			return fmt.Errorf("on %s: %w", kind, rerr)
		}
	}
	return nil
}
