package c09

import (
	"bytes"
	"fmt"
	"os"
	"sort"

	"github.com/nspcc-dev/neo-go/pkg/core/storage"
	"pgregory.net/rapid"
	"verifharness/vt"
)

// TornCase: a range scan of the node's shared cache layer (an RPC handler reading the chain-level DAO) that overlaps
// with the commit of a block: the block's private layer is merged into the shared layer in one atomic step
// (Persist of a private layer, as storeBlock does with PersistPrivate) and, optionally, the persisting goroutine
// flushes the shared layer to the backend. The harness owns the moment: a gate between the shared layer and the
// backend holds the reader right when it opens its scan of the backend, i.e. after it has looked at the cache.
// "Readers running concurrently with a flush or with writers never see ... a stale value or half of a batch":
// the scan returns the content before the block or the content after it, nothing in between.
type TornCase struct {
	Backend string  `json:"backend"`
	Disk    []TornW `json:"disk"`  // committed and flushed before
	Cache   []TornW `json:"cache"` // committed, still in the shared cache layer
	Batch   []TornW `json:"batch"` // the block committed while the reader is held (>= 2 keys: a batch has halves)
	Flush   bool    `json:"flush"` // the shared layer is flushed while the reader is held
	Back    bool    `json:"backwards,omitempty"`
}

type TornW struct {
	K   vt.Bytes `json:"k"`
	V   byte     `json:"v"`
	Del bool     `json:"del,omitempty"`
}

// KnownTornScan: see known_findings.json.
const KnownTornScan = "range-scan-torn-by-flush-between-cache-snapshot-and-backend-scan"

var strictTorn bool

func genTornW(t *rapid.T, label string, allowDel bool) TornW {
	w := TornW{K: []byte{0x70, byte(rapid.SampledFrom([]int{0x61, 0x62, 0x63, 0x64}).Draw(t, label+"k"))}, V: byte(rapid.IntRange(1, 200).Draw(t, label+"v"))}
	if allowDel && rapid.IntRange(0, 4).Draw(t, label+"del") == 0 {
		w.Del = true
	}
	return w
}

func genTorn(t *rapid.T) TornCase {
	c := TornCase{Backend: rapid.SampledFrom([]string{"mem", "mem", "bolt", "leveldb"}).Draw(t, "backend")}
	c.Disk = rapid.SliceOfN(rapid.Custom(func(t *rapid.T) TornW { return genTornW(t, "d", false) }), 0, 4).Draw(t, "disk")
	c.Cache = rapid.SliceOfN(rapid.Custom(func(t *rapid.T) TornW { return genTornW(t, "c", true) }), 0, 3).Draw(t, "cache")
	c.Batch = rapid.SliceOfN(rapid.Custom(func(t *rapid.T) TornW { return genTornW(t, "b", true) }), 2, 4).Draw(t, "batch")
	c.Flush = rapid.Bool().Draw(t, "flush")
	if c.Flush && vt.Known(KnownTornScan) {
		// listed finding: the flush completing inside the reader's gap is the shape that tears the scan; while it is
		// listed the generator leaves the flush out (the draw above is kept so that cases stay comparable)
		c.Flush = false
	}
	c.Back = rapid.Bool().Draw(t, "backwards")
	return c
}

// seekGate holds a Seek right before it reaches the backend.
type seekGate struct {
	storage.Store
	armed   bool
	entered chan struct{}
	release chan struct{}
}

func (g *seekGate) Seek(rng storage.SeekRange, f func(k, v []byte) bool) {
	if g.armed {
		g.armed = false
		g.entered <- struct{}{}
		<-g.release
	}
	g.Store.Seek(rng, f)
}

func tornApply(m map[string][]byte, ws []TornW) {
	for _, w := range ws {
		if w.Del {
			delete(m, string(w.K))
		} else {
			m[string(w.K)] = []byte{w.V}
		}
	}
}

func tornScan(m map[string][]byte, back bool) []kv {
	var out []kv
	for k, v := range m {
		out = append(out, kv{k, v})
	}
	sort.Slice(out, func(i, j int) bool {
		if back {
			return out[i].k > out[j].k
		}
		return out[i].k < out[j].k
	})
	return out
}

func sameKVs(a, b []kv) bool {
	if len(a) != len(b) {
		return false
	}
	for i := range a {
		if a[i].k != b[i].k || !bytes.Equal(a[i].v, b[i].v) {
			return false
		}
	}
	return true
}

func checkTorn(c TornCase, o *vt.Obs) error {
	if len(c.Batch) < 2 || len(c.Batch) > 8 {
		return nil
	}
	if c.Flush && !strictTorn && vt.Known(KnownTornScan) {
		o.Excluded()
		o.Label("excl:" + KnownTornScan)
		return nil
	}
	be, dir, err := openBackend(c.Backend)
	if err != nil {
		return fmt.Errorf("backend: %v", err)
	}
	defer func() {
		be.Close()
		if dir != "" {
			os.RemoveAll(dir)
		}
	}()
	gate := &seekGate{Store: be, entered: make(chan struct{}, 1), release: make(chan struct{})}
	shared := storage.NewMemCachedStore(gate)
	before := map[string][]byte{}
	put := func(s *storage.MemCachedStore, ws []TornW) {
		for _, w := range ws {
			if w.Del {
				s.Delete(w.K)
			} else {
				s.Put(w.K, []byte{w.V})
			}
		}
	}
	put(shared, c.Disk)
	if _, err := shared.Persist(); err != nil {
		return fmt.Errorf("flush: %v", err)
	}
	put(shared, c.Cache)
	tornApply(before, c.Disk)
	tornApply(before, c.Cache)
	after := map[string][]byte{}
	for k, v := range before {
		after[k] = v
	}
	tornApply(after, c.Batch)
	wantBefore, wantAfter := tornScan(before, c.Back), tornScan(after, c.Back)

	// the reader
	var got []kv
	done := make(chan struct{})
	gate.armed = true
	go func() {
		defer close(done)
		shared.Seek(storage.SeekRange{Prefix: []byte{0x70}, Backwards: c.Back}, func(k, v []byte) bool {
			got = append(got, kv{string(k), bytes.Clone(v)})
			return true
		})
	}()
	<-gate.entered // the reader has looked at the cache and is about to scan the backend
	blk := storage.NewPrivateMemCachedStore(shared)
	put(blk, c.Batch)
	if _, err := blk.Persist(); err != nil { // one atomic step
		close(gate.release)
		<-done
		return fmt.Errorf("commit of the block layer: %v", err)
	}
	if c.Flush {
		if _, err := shared.Persist(); err != nil {
			close(gate.release)
			<-done
			return fmt.Errorf("flush inside the window: %v", err)
		}
		o.Label("flush-inside-the-readers-gap")
	}
	close(gate.release)
	<-done
	o.Units(1)
	o.Label("backend-" + c.Backend)
	if !sameKVs(got, wantBefore) && !sameKVs(got, wantAfter) {
		return fmt.Errorf("range scan of the shared layer overlapping with the commit of a %d-key block (flush inside the reader's gap: %v, backend %s) returned %s: neither the content before the block %s nor the content after it %s - half of a batch",
			len(c.Batch), c.Flush, c.Backend, fmtKVs(got), fmtKVs(wantBefore), fmtKVs(wantAfter))
	}
	if !sameKVs(wantBefore, wantAfter) {
		o.NonTrivial()
	}
	return nil
}

// probeTornScan re-confirms the listed finding with a fixed case.
func probeTornScan() {
	if !vt.Known(KnownTornScan) {
		return
	}
	strictTorn = true
	defer func() { strictTorn = false }()
	err := checkTorn(TornCase{Backend: "mem",
		Disk:  []TornW{{K: []byte{0x70, 0x61}, V: 1}, {K: []byte{0x70, 0x62}, V: 1}},
		Cache: []TornW{{K: []byte{0x70, 0x61}, V: 2}},
		Batch: []TornW{{K: []byte{0x70, 0x61}, V: 3}, {K: []byte{0x70, 0x62}, V: 3}},
		Flush: true}, &vt.Obs{})
	if err != nil {
		vt.KnownFinding(KnownTornScan, err.Error())
	} else {
		fmt.Println("C09 probe " + KnownTornScan + ": the recorded case no longer violates its clause (remove the entry from known_findings.json)")
	}
}

func init() {
	vt.Register("tornscan", 0.05, genTorn, checkTorn)
}
