package c09

import (
	"bytes"
	"fmt"
	"sync"
	"sync/atomic"
	"time"

	"github.com/nspcc-dev/neo-go/pkg/core/storage"
	"pgregory.net/rapid"
	"verifharness/vt"
)

// FailFlushCase (STRESS with respect to goroutine scheduling): the backend refuses writes (disk full, I/O error). The
// node logs the failed flush and goes on (Blockchain.Run), so a cache layer with many unflushed keys is scanned by
// readers while its flush fails again and again and the writer keeps adding keys. Schedule-independent clauses: every
// key written before the run is seen by every scan, exactly once, with its value; nothing crashes (a Go runtime
// "concurrent map iteration and map write" ends the worker: the driver files it).
type FailFlushCase struct {
	Keys    int `json:"keys"`     // keys in the cache layer before the run
	Readers int `json:"readers"`  // scanning goroutines
	Flushes int `json:"flushes"`  // failing flushes
	DelayUs int `json:"delay_us"` // how long the backend takes to report the error
	Retry   int `json:"retry"`    // every Retry-th flush succeeds (0: none)
}

func genFailFlush(t *rapid.T) FailFlushCase {
	return FailFlushCase{
		Keys:    rapid.SampledFrom([]int{50, 500, 2000, 4000}).Draw(t, "keys"),
		Readers: rapid.IntRange(1, 3).Draw(t, "readers"),
		Flushes: rapid.IntRange(20, 120).Draw(t, "flushes"),
		DelayUs: rapid.SampledFrom([]int{0, 20, 50, 200}).Draw(t, "delay"),
		Retry:   rapid.SampledFrom([]int{0, 0, 3, 7}).Draw(t, "retry"),
	}
}

type refusingStore struct {
	storage.Store
	delay time.Duration
	retry int
	n     atomic.Int64
}

func (r *refusingStore) PutChangeSet(puts, stor map[string][]byte) error {
	if r.retry > 0 && r.n.Add(1)%int64(r.retry) == 0 {
		return r.Store.PutChangeSet(puts, stor)
	}
	if r.delay > 0 {
		time.Sleep(r.delay)
	}
	return errInjected
}

func checkFailFlush(c FailFlushCase, o *vt.Obs) error {
	if c.Keys < 1 || c.Keys > 10000 || c.Readers < 1 || c.Readers > 8 || c.Flushes < 1 || c.Flushes > 1000 {
		return nil
	}
	s := storage.NewMemCachedStore(&refusingStore{Store: storage.NewMemoryStore(), delay: time.Duration(c.DelayUs) * time.Microsecond, retry: c.Retry})
	key := func(i int) []byte { return []byte{0x70, 1, byte(i >> 8), byte(i)} }
	for i := 0; i < c.Keys; i++ {
		s.Put(key(i), []byte{byte(i), 1})
	}
	var (
		stop  atomic.Bool
		wg    sync.WaitGroup
		mu    sync.Mutex
		first error
		scans atomic.Int64
	)
	wg.Add(1)
	go func() { // writer + flusher (the node does both from one goroutine per block)
		defer wg.Done()
		for n := 0; n < c.Flushes; n++ {
			s.Put([]byte{0x70, 2, byte(n >> 8), byte(n)}, []byte{2})
			_, _ = s.Persist()
		}
		stop.Store(true)
	}()
	for r := 0; r < c.Readers; r++ {
		wg.Add(1)
		go func(r int) {
			defer wg.Done()
			for !stop.Load() {
				next := 0
				var bad error
				s.Seek(storage.SeekRange{Prefix: []byte{0x70, 1}}, func(k, v []byte) bool {
					if next >= c.Keys || !bytes.Equal(k, key(next)) || !bytes.Equal(v, []byte{byte(next), 1}) {
						bad = fmt.Errorf("scan of reader %d while flushes fail: item %d is %x=%x, want %x", r, next, k, v, key(min(next, c.Keys-1)))
						return false
					}
					next++
					return true
				})
				if bad == nil && next != c.Keys {
					bad = fmt.Errorf("scan of reader %d while flushes fail: %d of the %d keys written before the run", r, next, c.Keys)
				}
				scans.Add(1)
				if bad != nil {
					mu.Lock()
					if first == nil {
						first = bad
					}
					mu.Unlock()
					stop.Store(true)
					return
				}
			}
		}(r)
	}
	wg.Wait()
	o.Units(int(scans.Load()))
	if first != nil {
		return first
	}
	if scans.Load() > int64(c.Readers) {
		o.NonTrivial()
	}
	return nil
}

func init() {
	vt.Register("failflush", 0.004, genFailFlush, checkFailFlush)
}
