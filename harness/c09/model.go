package c09

import (
	"sort"
	"strings"
)

// model is the reference: one Go map per cache layer (nil value = tombstone) plus the backend's map
// (no tombstones). It implements the documented semantics of storage.SeekRange (store.go) literally:
//
//	keys having Prefix;
//	forwards:  ascending over keys >= Prefix+Start;
//	backwards: descending over keys <= Prefix+Start or extending Prefix+Start (Prefix+Start is a prefix bound,
//	           as the persistent backends implement it);
//	SearchDepth 0 = all layers, n >= 1 = only the n topmost cache layers (counted from the queried one).
type model struct {
	base   map[string][]byte
	layers []map[string][]byte
}

type kv struct {
	k string
	v []byte
}

func inRange(k string, q *Q) bool {
	if !strings.HasPrefix(k, string(q.Prefix)) {
		return false
	}
	if len(q.Start) == 0 {
		return true
	}
	ps := string(q.Prefix) + string(q.Start)
	if !q.Back {
		return k >= ps
	}
	return k <= ps || strings.HasPrefix(k, ps)
}

// view returns the net content seen from layer at (-1 = backend) with the given search depth:
// key -> value, tombstoned keys absent.
func (m *model) view(at, depth int) map[string][]byte {
	out := map[string][]byte{}
	lo := 0
	withBase := true
	if depth >= 1 && depth <= at+1 {
		lo = at - depth + 1
		withBase = false
	}
	if withBase {
		for k, v := range m.base {
			out[k] = v
		}
	}
	for i := lo; i <= at; i++ {
		for k, v := range m.layers[i] {
			if v == nil {
				delete(out, k)
			} else {
				out[k] = v
			}
		}
	}
	return out
}

// own returns the live (non-tombstone) pairs of exactly one store (what SeekGC works on).
func (m *model) own(at int) map[string][]byte {
	if at < 0 {
		return m.base
	}
	out := map[string][]byte{}
	for k, v := range m.layers[at] {
		if v != nil {
			out[k] = v
		}
	}
	return out
}

// rangeOf orders the pairs of content selected by q.
func rangeOf(content map[string][]byte, q *Q) []kv {
	var out []kv
	for k, v := range content {
		if inRange(k, q) {
			out = append(out, kv{k, v})
		}
	}
	sort.Slice(out, func(i, j int) bool {
		if q.Back {
			return out[i].k > out[j].k
		}
		return out[i].k < out[j].k
	})
	return out
}

func cloneMap(m map[string][]byte) map[string][]byte {
	out := make(map[string][]byte, len(m))
	for k, v := range m {
		out[k] = v
	}
	return out
}

// classify computes the class flags of one range query issued at layer at (see the NT rule in c09.go/init docs).
type qclass struct {
	sources   int  // number of distinct stores contributing result items
	tombHides bool // a tombstone (topmost entry of its key) hides a lower live value that lies in the range
	extStart  bool // a result key strictly extends Prefix+Start
	ppShape   bool // the queried layer holds P+c live, lower stores show c (c has prefix P): the cut key collides with a full key
}

func (m *model) classify(at, depth int, q *Q) qclass {
	var c qclass
	if at < 0 {
		return c
	}
	lo := 0
	withBase := true
	if depth >= 1 && depth <= at+1 {
		lo = at - depth + 1
		withBase = false
	}
	src := map[int]bool{}
	ps := string(q.Prefix) + string(q.Start)
	res := m.view(at, depth)
	for k := range res {
		if !inRange(k, q) {
			continue
		}
		if strings.HasPrefix(k, ps) && len(k) > len(ps) {
			c.extStart = true
		}
		// topmost store holding k
		found := false
		for i := at; i >= lo; i-- {
			if _, ok := m.layers[i][k]; ok {
				src[i] = true
				found = true
				break
			}
		}
		if !found {
			src[-1] = true
		}
	}
	c.sources = len(src)
	for i := at; i >= lo && !c.tombHides; i-- {
		for k, v := range m.layers[i] {
			if v != nil || !inRange(k, q) {
				continue
			}
			top := true
			for j := at; j > i; j-- {
				if _, ok := m.layers[j][k]; ok {
					top = false
				}
			}
			if !top {
				continue
			}
			for j := i - 1; j >= lo; j-- {
				if lv, ok := m.layers[j][k]; ok {
					if lv != nil {
						c.tombHides = true
					}
					break
				}
			}
			if !c.tombHides && withBase {
				hiddenBelow := false
				for j := i - 1; j >= lo; j-- {
					if _, ok := m.layers[j][k]; ok {
						hiddenBelow = true
						break
					}
				}
				if _, ok := m.base[k]; ok && !hiddenBelow {
					c.tombHides = true
				}
			}
			if c.tombHides {
				break
			}
		}
	}
	return c
}

// staleCutCollision reports the shape of finding "seekasync-cut-stale-mem-key": a SeekAsync with cutPrefix whose
// top-level merge has own = the queried store's own pending map (tombstones included) and lower = what the store
// below it shows. The shape: the LAST in-range entry (in iteration order) of own is a live pair with key P+c, and
// lower shows a key equal to c that comes later in the iteration order. It returns that lower key ("" = shape absent).
func staleCutCollision(own, lower map[string][]byte, q *Q) string {
	var last string
	have := false
	for k := range own {
		if !inRange(k, q) {
			continue
		}
		if !have || (!q.Back && k > last) || (q.Back && k < last) {
			last, have = k, true
		}
	}
	if !have || own[last] == nil {
		return ""
	}
	c := last[len(q.Prefix):]
	if !inRange(c, q) {
		return ""
	}
	if (!q.Back && !(last < c)) || (q.Back && !(last > c)) {
		return ""
	}
	if _, ok := lower[c]; ok {
		return c
	}
	return ""
}

// ownAndLower splits what a query at layer at with the given depth merges at its top level.
func (m *model) ownAndLower(at, depth int) (own, lower map[string][]byte) {
	own = m.layers[at]
	switch {
	case depth == 1:
		lower = map[string][]byte{}
	case at == 0:
		lower = m.base
	case depth == 0:
		lower = m.view(at-1, 0)
	default:
		lower = m.view(at-1, depth-1)
	}
	return
}
