// Package c09 checks property C09: the layered key-value store (MemCachedStore layers over MemoryStore /
// BoltDB / LevelDB) behaves as one ordered map.
//
// Files: c09.go (Case types, generators, registration), model.go (reference model: one Go map per layer),
// interp.go (interpreter of an op list against the real stores + oracle), gated.go (gate Store used for the
// owned Persist window), stress.go (goroutine stress variant).
package c09

import (
	"bytes"
	"encoding/binary"

	"pgregory.net/rapid"
	"verifharness/vt"
)

// Q is one range query in the terms of storage.SeekRange.
type Q struct {
	Prefix vt.Bytes `json:"p"`
	Start  vt.Bytes `json:"s,omitempty"`
	Back   bool     `json:"b,omitempty"`
	Depth  int      `json:"d,omitempty"`
}

// KVi is a write of pool key K (index modulo pool size).
type KVi struct {
	K   int      `json:"k"`
	V   vt.Bytes `json:"v,omitempty"`
	Del bool     `json:"del,omitempty"`
}

// CW is a write issued from inside a seek callback / between two receives, before item number Item is consumed.
type CW struct {
	Item int `json:"item"`
	KVi
}

// Op is one step. Layer addressing: At counts from the top of the current stack downwards (0 = top layer),
// modulo the number of addressable stores (for queries/gc the backend is the last one).
type Op struct {
	Kind string `json:"kind"`
	// put del delvis batch flush failflush push gc get seek async dseek dasync dput ddel dget window rewrite
	At    int      `json:"at,omitempty"`
	K     int      `json:"k,omitempty"`
	V     vt.Bytes `json:"v,omitempty"`
	Items []KVi    `json:"items,omitempty"` // batch (PutChangeSet)
	Mode  int      `json:"mode,omitempty"`  // flush: 0 Persist, 1 PersistSync, 2 lower.PersistPrivate(top) for a private top
	Priv  bool     `json:"priv,omitempty"`  // push: private layer
	Q     *Q       `json:"q,omitempty"`
	Stop  int      `json:"stop,omitempty"` // seek/gc: callback returns false after Stop items; async: cancel after Stop items; 0 = never
	Cut   bool     `json:"cut,omitempty"`  // async: cutPrefix
	Keep  uint32   `json:"keep,omitempty"` // gc: bit j%32 set = keep the j-th visited pair
	CW    []CW     `json:"cw,omitempty"`   // writes through the queried store while iterating
	// async only: after FlushAfter received items flush the layer FlushAt-1 positions below the queried one
	// (FlushAt = 0: no flush). Mode selects Persist/PersistSync.
	FlushAt    int      `json:"flush_at,omitempty"`
	FlushAfter int      `json:"flush_after,omitempty"`
	ID         int32    `json:"id,omitempty"`    // dao ops: contract id
	DK         vt.Bytes `json:"dk,omitempty"`    // dao ops dput/ddel/dget: contract-relative key
	Inner      []Op     `json:"inner,omitempty"` // window: ops executed while bottom.Persist() is blocked inside PutChangeSet
	Fail       bool     `json:"fail,omitempty"`  // window: the held PutChangeSet fails (backend error) instead of writing
	Retry      bool     `json:"retry,omitempty"` // window with Fail: a successful Persist follows
	Del        bool     `json:"del,omitempty"`   // rewrite: delete instead of put
	Span       *Op      `json:"span,omitempty"`  // window: an async query started inside the window and drained after release
}

// Case is a backend, an initial layer stack and an op list.
type Case struct {
	Backend string     `json:"backend"` // mem | bolt | leveldb (ignored by tridiff)
	Stack   []bool     `json:"stack"`   // one entry per initial MemCachedStore layer, bottom first; true = private (top only)
	Keys    []vt.Bytes `json:"keys"`    // key pool
	DaoPfx  byte       `json:"dao_pfx"` // dao.Version.StoragePrefix used by dao ops (0x70 / 0x71)
	Ops     []Op       `json:"ops"`
}

var (
	firstBytes = []byte{0x70, 0x70, 0x70, 0x71, 0x01, 0x03, 0xff}
	tailAlpha  = []byte{0x00, 0x01, 0x61, 0x62, 0xff, 0x70}
	daoIDs     = []int32{1, 0x70, -1, 0x0100}
)

const (
	maxLayers = 4
	maxOps    = 60
)

func genTail(t *rapid.T, min, max int, label string) []byte {
	n := rapid.IntRange(min, max).Draw(t, label+"_n")
	b := make([]byte, 0, n)
	for i := 0; i < n; i++ {
		b = append(b, rapid.SampledFrom(tailAlpha).Draw(t, label))
	}
	return b
}

func daoKeyPrefix(pfx byte, id int32) []byte {
	b := make([]byte, 5)
	b[0] = pfx
	binary.LittleEndian.PutUint32(b[1:], uint32(id))
	return b
}

// genHot draws the "hot" prefix of a case: the prefix most keys and queries are built around.
func genHot(t *rapid.T, daoPfx byte, daoBias bool) []byte {
	dao := rapid.IntRange(0, 9).Draw(t, "hot_dao")
	if (daoBias && dao < 9) || (!daoBias && dao < 2) {
		id := rapid.SampledFrom(daoIDs).Draw(t, "hot_id")
		return append(daoKeyPrefix(daoPfx, id), genTail(t, 0, 1, "hot_t")...)
	}
	return append([]byte{rapid.SampledFrom(firstBytes).Draw(t, "hot_fb")}, genTail(t, 0, 2, "hot_t")...)
}

// genKey: keys are prefixes / extensions of each other, of the hot prefix and of hot+hot.
func genKey(t *rapid.T, hot []byte) vt.Bytes {
	switch rapid.IntRange(0, 19).Draw(t, "key_mode") {
	case 0, 1, 2:
		return append([]byte{rapid.SampledFrom(firstBytes).Draw(t, "key_fb")}, genTail(t, 0, 4, "key_t")...)
	case 3, 4, 5, 6, 7, 8, 9, 10, 11:
		return append(bytes.Clone(hot), genTail(t, 0, 2, "key_t")...)
	case 12, 13, 14:
		k := append(bytes.Clone(hot), hot...)
		return append(k, genTail(t, 0, 1, "key_t")...)
	case 15:
		return bytes.Clone(hot)
	default:
		// hot with its first byte only, then a tail: neighbours of the hot prefix
		return append([]byte{hot[0]}, genTail(t, 0, 3, "key_t")...)
	}
}

func genVal(t *rapid.T, label string) vt.Bytes {
	switch rapid.IntRange(0, 7).Draw(t, label+"_kind") {
	case 0:
		return vt.Bytes{}
	case 1, 2, 3:
		return vt.Bytes{byte(rapid.IntRange(1, 9).Draw(t, label))}
	default:
		return rapid.SliceOfN(rapid.Byte(), 1, 3).Draw(t, label)
	}
}

type pair struct{ pc, c, plen int } // keys[pc] = keys[c][:plen] + keys[c]

type genCtx struct {
	hot     []byte
	keys    []vt.Bytes
	daoPfx  byte
	dao     bool // bias towards dao ops
	pairs   []pair
	written []int // pool indices written so far (generator-side bookkeeping only)
	gated   bool
}

func (g *genCtx) genQ(t *rapid.T, relDao bool) *Q {
	q := &Q{}
	var base []byte // for dao-relative queries everything is relative to the 5-byte contract prefix
	if relDao {
		// contract-relative prefix: the part of hot / of a pool key after the 5 bytes
		switch rapid.IntRange(0, 5).Draw(t, "dq_mode") {
		case 0:
			q.Prefix = vt.Bytes{}
		case 1, 2, 3:
			if len(g.hot) > 5 {
				q.Prefix = bytes.Clone(g.hot[5:])
			} else {
				q.Prefix = vt.Bytes{}
			}
		default:
			q.Prefix = genTail(t, 0, 2, "dq_p")
		}
		base = append(bytes.Clone(g.hot[:min(5, len(g.hot))]), q.Prefix...)
	} else {
		switch rapid.IntRange(0, 19).Draw(t, "q_mode") {
		case 0, 1, 2, 3, 4, 5, 6:
			q.Prefix = bytes.Clone(g.hot)
		case 7, 8, 9, 10, 11:
			q.Prefix = bytes.Clone(g.hot[:rapid.IntRange(1, len(g.hot)).Draw(t, "q_hl")])
		case 12, 13, 14, 15:
			k := g.keys[rapid.IntRange(0, len(g.keys)-1).Draw(t, "q_pk")]
			q.Prefix = bytes.Clone(k[:rapid.IntRange(1, len(k)).Draw(t, "q_pl")])
		case 16, 17:
			q.Prefix = vt.Bytes{rapid.SampledFrom(firstBytes).Draw(t, "q_fb")}
		default:
			q.Prefix = append([]byte{rapid.SampledFrom(firstBytes).Draw(t, "q_fb")}, genTail(t, 1, 2, "q_pt")...)
		}
		base = q.Prefix
	}
	switch rapid.IntRange(0, 9).Draw(t, "s_mode") {
	case 0, 1, 2:
		// empty start
	case 3, 4, 5, 6:
		// derived from a pool key that has the prefix: the key's remainder, truncated or extended
		var cands []vt.Bytes
		for _, k := range g.keys {
			if bytes.HasPrefix(k, base) && len(k) > len(base) {
				cands = append(cands, k)
			}
		}
		if len(cands) > 0 {
			k := cands[rapid.IntRange(0, len(cands)-1).Draw(t, "s_k")]
			rem := k[len(base):]
			switch rapid.IntRange(0, 3).Draw(t, "s_edit") {
			case 0, 1:
				q.Start = bytes.Clone(rem)
			case 2:
				q.Start = bytes.Clone(rem[:rapid.IntRange(1, len(rem)).Draw(t, "s_tr")])
			default:
				q.Start = append(bytes.Clone(rem), rapid.SampledFrom(tailAlpha).Draw(t, "s_ext"))
			}
		} else {
			q.Start = genTail(t, 1, 2, "s_t")
		}
	default:
		q.Start = genTail(t, 1, 3, "s_t")
	}
	q.Back = rapid.Bool().Draw(t, "q_back")
	if !g.gated && rapid.IntRange(0, 9).Draw(t, "q_dl") < 2 {
		q.Depth = rapid.IntRange(1, maxLayers+1).Draw(t, "q_depth")
	}
	return q
}

func (g *genCtx) genKVi(t *rapid.T, label string) KVi {
	kv := KVi{}
	if rapid.IntRange(0, 3).Draw(t, label+"_del") == 0 {
		kv.Del = true
		kv.K = g.genWrittenKey(t)
	} else {
		kv.K = rapid.IntRange(0, len(g.keys)-1).Draw(t, label+"_k")
		kv.V = genVal(t, label+"_v")
		g.written = append(g.written, kv.K)
	}
	return kv
}

// genWrittenKey prefers a key some earlier op has written (so deletions hit live keys and reads hit present ones).
func (g *genCtx) genWrittenKey(t *rapid.T) int {
	if len(g.written) > 0 && rapid.IntRange(0, 9).Draw(t, "wk_any") < 8 {
		return g.written[rapid.IntRange(0, len(g.written)-1).Draw(t, "wk")]
	}
	return rapid.IntRange(0, len(g.keys)-1).Draw(t, "k")
}

func (g *genCtx) genCWs(t *rapid.T) []CW {
	if rapid.IntRange(0, 3).Draw(t, "cw_any") != 0 {
		return nil
	}
	n := rapid.IntRange(1, 3).Draw(t, "cw_n")
	var l []CW
	for i := 0; i < n; i++ {
		l = append(l, CW{Item: rapid.IntRange(0, 4).Draw(t, "cw_item"), KVi: g.genKVi(t, "cw")})
	}
	return l
}

// at: mostly the top.
func genAt(t *rapid.T, label string) int {
	if rapid.IntRange(0, 9).Draw(t, label+"_top") < 6 {
		return 0
	}
	return rapid.IntRange(0, maxLayers).Draw(t, label)
}

func (g *genCtx) genAsync(t *rapid.T, kind string) Op {
	op := Op{Kind: kind, At: genAt(t, "at")}
	op.Q = g.genQ(t, kind == "dasync")
	op.Cut = rapid.Bool().Draw(t, "cut")
	if rapid.IntRange(0, 3).Draw(t, "cancel_any") == 0 {
		op.Stop = rapid.IntRange(1, 4).Draw(t, "cancel")
	}
	op.CW = g.genCWs(t)
	if rapid.IntRange(0, 4).Draw(t, "mf_any") == 0 {
		op.FlushAt = rapid.IntRange(1, maxLayers).Draw(t, "mf_at")
		op.FlushAfter = rapid.IntRange(0, 3).Draw(t, "mf_after")
		op.Mode = rapid.IntRange(0, 1).Draw(t, "mf_mode")
	}
	if kind == "dasync" {
		op.ID = g.daoID(t)
	}
	return op
}

func (g *genCtx) daoID(t *rapid.T) int32 {
	if len(g.hot) >= 5 && rapid.IntRange(0, 9).Draw(t, "id_hot") < 8 {
		return int32(binary.LittleEndian.Uint32(g.hot[1:5]))
	}
	return rapid.SampledFrom(daoIDs).Draw(t, "id")
}

// profile = the op kinds of one check, grouped by role; a case is a list of rounds
// (writes, then structural ops, then queries) so that queries see content spread over several stores.
type profile struct {
	writes, structural, queries []string
}

var (
	profPlain = profile{
		writes:     []string{"put", "put", "put", "put", "put", "del", "delvis", "delvis", "batch"},
		structural: []string{"flush", "flush", "flush", "push", "gc", "failflush"},
		queries:    []string{"get", "seek", "seek", "seek", "async", "async", "async"},
	}
	profDao = profile{
		writes:     []string{"put", "dput", "dput", "dput", "dput", "ddel", "delvis", "delvis", "batch"},
		structural: []string{"flush", "flush", "flush", "push", "failflush"},
		queries:    []string{"dget", "dseek", "dseek", "dseek", "dasync", "dasync", "dasync", "async"},
	}
	profGated = profile{
		writes:     []string{"put", "put", "put", "put", "put", "del", "delvis", "delvis", "batch"},
		structural: []string{"flush", "push", "failflush", "window", "window", "window", "window"},
		queries:    []string{"get", "seek", "async"},
	}
	kindsWindowFail = []string{
		"rewrite", "rewrite", "rewrite", "rewrite", "rewrite", "put", "del", "delvis", "batch", "flush",
		"get", "seek", "async",
	}
	kindsWindow = []string{
		"put", "put", "del", "delvis", "batch", "flush", "push",
		"get", "seek", "seek", "async", "async", "dseek", "dasync",
	}
)

func (g *genCtx) genRound(t *rapid.T, p profile) []Op {
	var ops []Op
	ops = append(ops, rapid.SliceOfN(rapid.Custom(func(t *rapid.T) Op { return g.genOp(t, p.writes) }), 0, 10).Draw(t, "writes")...)
	ops = append(ops, rapid.SliceOfN(rapid.Custom(func(t *rapid.T) Op { return g.genOp(t, p.structural) }), 0, 2).Draw(t, "structural")...)
	ops = append(ops, rapid.SliceOfN(rapid.Custom(func(t *rapid.T) Op { return g.genOp(t, p.queries) }), 0, 6).Draw(t, "queries")...)
	if len(g.pairs) > 0 && rapid.IntRange(0, 5).Draw(t, "aim_pp") == 0 {
		// c below, P+c alone in a fresh top layer, then SeekAsync(cutPrefix) over P in the direction that meets P+c first
		pr := g.pairs[rapid.IntRange(0, len(g.pairs)-1).Draw(t, "aim_pair")]
		P := g.keys[pr.c][:pr.plen]
		ops = append(ops,
			Op{Kind: "put", K: pr.c, V: genVal(t, "v")},
			Op{Kind: "push", Priv: rapid.Bool().Draw(t, "priv")},
			Op{Kind: "put", K: pr.pc, V: genVal(t, "v")},
			Op{Kind: "async", Cut: true, Q: &Q{Prefix: bytes.Clone(P), Back: bytes.Compare(g.keys[pr.pc], g.keys[pr.c]) > 0}},
		)
	}
	return ops
}

func (g *genCtx) genOp(t *rapid.T, kinds []string) Op {
	kind := rapid.SampledFrom(kinds).Draw(t, "kind")
	op := Op{Kind: kind}
	switch kind {
	case "put":
		op.At = rapid.IntRange(0, maxLayers-1).Draw(t, "at")
		op.K = rapid.IntRange(0, len(g.keys)-1).Draw(t, "k")
		op.V = genVal(t, "v")
		g.written = append(g.written, op.K)
	case "del":
		op.At = rapid.IntRange(0, maxLayers-1).Draw(t, "at")
		op.K = g.genWrittenKey(t)
	case "failflush":
		op.Mode = rapid.IntRange(0, 1).Draw(t, "mode")
	case "rewrite":
		op.K = rapid.IntRange(0, 40).Draw(t, "rk")
		if rapid.IntRange(0, 2).Draw(t, "rdel") == 0 {
			op.Del = true
		} else {
			op.V = genVal(t, "v")
		}
	case "delvis":
		// delete the K-th key (modulo) currently visible from the addressed layer: a tombstone over a live lower value
		op.At = genAt(t, "at")
		op.K = rapid.IntRange(0, 40).Draw(t, "vis")
	case "get":
		op.At = genAt(t, "at")
		op.K = g.genWrittenKey(t)
	case "batch":
		op.At = genAt(t, "at")
		n := rapid.IntRange(1, 5).Draw(t, "bn")
		for i := 0; i < n; i++ {
			op.Items = append(op.Items, g.genKVi(t, "b"))
		}
	case "flush":
		op.At = rapid.IntRange(0, maxLayers-1).Draw(t, "at")
		op.Mode = rapid.IntRange(0, 2).Draw(t, "mode")
	case "push":
		op.Priv = rapid.Bool().Draw(t, "priv")
	case "gc":
		// mostly the backend (the only production use), sometimes a cache layer (documented: current store only)
		if rapid.IntRange(0, 3).Draw(t, "gc_layer") == 0 {
			op.At = rapid.IntRange(0, maxLayers).Draw(t, "at")
		} else {
			op.At = -1
		}
		op.Q = g.genQ(t, false)
		op.Q.Depth = 0
		op.Keep = rapid.Uint32().Draw(t, "keep")
		if rapid.IntRange(0, 3).Draw(t, "gc_stop") == 0 {
			op.Stop = rapid.IntRange(1, 3).Draw(t, "stop")
		}
	case "seek", "dseek":
		op.At = genAt(t, "at")
		op.Q = g.genQ(t, kind == "dseek")
		if rapid.IntRange(0, 3).Draw(t, "stop_any") == 0 {
			op.Stop = rapid.IntRange(1, 4).Draw(t, "stop")
		}
		op.CW = g.genCWs(t)
		if kind == "dseek" {
			op.ID = g.daoID(t)
			// Priv: the scan goes through a private DAO stacked on the queried layer (the form block and
			// transaction execution use), and the callback reads other items through that same DAO.
			if rapid.Bool().Draw(t, "dseek_private") {
				op.Priv = true
				op.CW = nil
			}
		}
	case "async", "dasync":
		op = g.genAsync(t, kind)
	case "dput", "ddel", "dget":
		op.At = genAt(t, "at")
		op.ID = g.daoID(t)
		// contract-relative key: remainder of a pool key when it lies in that contract, else a tail
		k := g.keys[rapid.IntRange(0, len(g.keys)-1).Draw(t, "dk_k")]
		if len(k) >= 5 && bytes.Equal(k[:5], daoKeyPrefix(g.daoPfx, op.ID)) {
			op.DK = bytes.Clone(k[5:])
		} else {
			op.DK = genTail(t, 0, 3, "dk_t")
		}
		if kind == "dput" {
			op.V = genVal(t, "v")
		}
	case "window":
		op.Fail = rapid.IntRange(0, 9).Draw(t, "win_fail") < 4
		kinds := kindsWindow
		if op.Fail {
			kinds = kindsWindowFail
			op.Retry = rapid.IntRange(0, 9).Draw(t, "win_retry") < 6
			op.Mode = rapid.IntRange(0, 1).Draw(t, "win_mode")
		}
		op.Inner = rapid.SliceOfN(rapid.Custom(func(t *rapid.T) Op { return g.genOp(t, kinds) }), 0, 8).Draw(t, "inner")
		if rapid.IntRange(0, 2).Draw(t, "span_any") == 0 {
			sp := g.genAsync(t, "async")
			sp.FlushAt = 0
			op.Span = &sp
		}
	}
	return op
}

func genCaseWith(t *rapid.T, backends []string, dao, gated bool) Case {
	c := Case{Backend: rapid.SampledFrom(backends).Draw(t, "backend")}
	c.DaoPfx = rapid.SampledFrom([]byte{0x70, 0x70, 0x70, 0x71}).Draw(t, "dao_pfx")
	depth := rapid.IntRange(1, maxLayers).Draw(t, "depth")
	c.Stack = make([]bool, depth)
	if !(gated && depth == 1) && rapid.IntRange(0, 2).Draw(t, "top_priv") == 0 {
		c.Stack[depth-1] = true
	}
	g := &genCtx{daoPfx: c.DaoPfx, dao: dao, gated: gated}
	g.hot = genHot(t, c.DaoPfx, dao)
	hot := g.hot
	g.keys = rapid.SliceOfN(rapid.Custom(func(t *rapid.T) vt.Bytes { return genKey(t, hot) }), 4, 24).Draw(t, "keys")
	// Aim at the "cut key collides with a full key" shape: pool keys P+c and c where c itself starts with P.
	np := rapid.IntRange(0, 2).Draw(t, "npairs")
	for i := 0; i < np; i++ {
		j := rapid.IntRange(0, len(g.keys)-1).Draw(t, "pair_c")
		ck := g.keys[j]
		l := len(ck)
		if bytes.HasPrefix(ck, hot) && rapid.Bool().Draw(t, "pair_hot") {
			l = len(hot)
		} else {
			l = rapid.IntRange(1, len(ck)).Draw(t, "pair_l")
		}
		g.keys = append(g.keys, append(bytes.Clone(ck[:l]), ck...))
		g.pairs = append(g.pairs, pair{pc: len(g.keys) - 1, c: j, plen: l})
	}
	if gated {
		// both internal maps (STStorage/STTempStorage vs the rest) must hold keys of a batch in flight
		other := []byte{0x01, 0x03}
		if hot[0] != 0x70 && hot[0] != 0x71 {
			other = []byte{0x70, 0x71}
		}
		no := rapid.IntRange(1, 3).Draw(t, "nother")
		for i := 0; i < no; i++ {
			g.keys = append(g.keys, append([]byte{rapid.SampledFrom(other).Draw(t, "other_fb")}, genTail(t, 0, 2, "other_t")...))
		}
	}
	c.Keys = g.keys
	prof := profPlain
	if dao {
		prof = profDao
	}
	if gated {
		prof = profGated
	}
	rounds := rapid.SliceOfN(rapid.Custom(func(t *rapid.T) []Op { return g.genRound(t, prof) }), 1, 6).Draw(t, "rounds")
	for _, r := range rounds {
		c.Ops = append(c.Ops, r...)
	}
	return c
}

func genLayersMem(t *rapid.T) Case  { return genCaseWith(t, []string{"mem"}, false, false) }
func genLayersDisk(t *rapid.T) Case { return genCaseWith(t, []string{"bolt", "leveldb"}, false, false) }
func genTri(t *rapid.T) Case        { return genCaseWith(t, []string{"tri"}, false, false) }
func genDao(t *rapid.T) Case {
	return genCaseWith(t, []string{"mem", "mem", "mem", "bolt", "bolt", "leveldb"}, true, false)
}
func genGated(t *rapid.T) Case {
	return genCaseWith(t, []string{"mem", "mem", "mem", "mem", "mem", "mem", "bolt", "leveldb"}, false, true)
}

func init() {
	vt.PropertyID = "C09"
	vt.Register("layers-mem", 1.0, genLayersMem, checkLayers)
	vt.Register("layers-disk", 0.1, genLayersDisk, checkLayers)
	vt.Register("dao", 0.3, genDao, checkLayers)
	vt.Register("tridiff", 0.04, genTri, checkTri)
	vt.Register("gated", 0.3, genGated, checkGated)
	vt.Register("stress", 0.01, genStress, checkStress)
	vt.Register("leveldb-reuse", 0.002, genReuse, checkReuse)
}
