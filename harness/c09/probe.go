package c09

import (
	"bytes"
	"context"
	"fmt"
	"os"
	"path/filepath"
	"strings"
	"time"

	"github.com/nspcc-dev/neo-go/pkg/core/storage"
	"github.com/nspcc-dev/neo-go/pkg/core/storage/dbconfig"
	"pgregory.net/rapid"
	"verifharness/vt"
)

// probeKnown re-confirms the findings that are listed as "known" (DESIGN.md §1.4) and prints one KNOWN-FINDING line
// for each that still reproduces. It gives no verdict.
func probeKnown() {
	if vt.Known(KnownStaleCut) && probeStaleCut() {
		vt.KnownFinding(KnownStaleCut, "SeekAsync(cutPrefix=true) drops a lower-store key equal to the cut form of the last pending key (prefix 70: pending 7070, persisted 70, backwards => only [70])")
	}
	probeTornScan()
	if vt.Known(KnownLevelDBReuse) && probeLevelDBReuse() {
		vt.KnownFinding(KnownLevelDBReuse, "LevelDBStore.PutChangeSet returned nil but the batch is invisible to Get (goleveldb file-number reuse with stale block cache)")
	}
}

// probeStaleCut: persisted key P, pending key P+P, backwards SeekAsync over P with cutPrefix must give 2 items.
func probeStaleCut() bool {
	s := storage.NewMemCachedStore(storage.NewMemoryStore())
	s.Put([]byte{0x70}, []byte{1})
	if _, err := s.Persist(); err != nil {
		return false
	}
	s.Put([]byte{0x70, 0x70}, []byte{2})
	n := 0
	for range s.SeekAsync(context.Background(), storage.SeekRange{Prefix: []byte{0x70}, Backwards: true}, true) {
		n++
	}
	return n != 2
}

// probeLevelDBReuse: the fixed instance of the reuse scenario.
func probeLevelDBReuse() bool {
	stale, _ := levelDBReuseScenario([]byte{0x70, 0xff}, []byte{0x70, 0x70}, []byte{0x70}, []byte{6})
	return stale
}

// levelDBReuseScenario: four one-key batches (the 4th deletes the key of the 1st) make a level-0 compaction with an
// empty result; once it has removed the newest table, the next batch reuses its file number and is shadowed by cached
// blocks. The wait for goleveldb's compaction goroutine is bounded polling of the data directory: when the
// compaction does not show up in time the scenario simply does not strike (never a false alarm).
func levelDBReuseScenario(a, b, c, newC []byte) (stale bool, err error) {
	dir, err := os.MkdirTemp(tmpBase(), "c09probe")
	if err != nil {
		return false, err
	}
	defer os.RemoveAll(dir)
	s, err := storage.NewLevelDBStore(dbconfig.LevelDBOptions{DataDirectoryPath: filepath.Join(dir, "ldb")})
	if err != nil {
		return false, err
	}
	defer s.Close()
	put := func(k, v []byte) error {
		return s.PutChangeSet(map[string][]byte{}, map[string][]byte{string(k): v})
	}
	tables := func() int {
		es, _ := os.ReadDir(filepath.Join(dir, "ldb"))
		n := 0
		for _, e := range es {
			if strings.HasSuffix(e.Name(), ".ldb") {
				n++
			}
		}
		return n
	}
	for _, w := range [][2][]byte{{a, {1}}, {b, {8}}, {c, {0x2b}}, {a, nil}} {
		if err := put(w[0], w[1]); err != nil {
			return false, err
		}
	}
	_, _ = s.Get(a)
	for i := 0; i < 400 && tables() >= 4; i++ {
		time.Sleep(5 * time.Millisecond)
	}
	if err := put(c, newC); err != nil {
		return false, err
	}
	got, gerr := s.Get(c)
	return gerr != nil || !bytes.Equal(got, newC), nil
}

// ReuseCase: three distinct keys and the rewritten value for the deterministic LevelDB regression check.
type ReuseCase struct {
	A vt.Bytes `json:"a"`
	B vt.Bytes `json:"b"`
	C vt.Bytes `json:"c"`
	V vt.Bytes `json:"v"`
}

func genReuse(t *rapid.T) ReuseCase {
	keys := rapid.SliceOfNDistinct(rapid.Custom(func(t *rapid.T) string {
		return string(append([]byte{rapid.SampledFrom(firstBytes).Draw(t, "fb")}, genTail(t, 0, 2, "t")...))
	}), 3, 3, rapid.ID[string]).Draw(t, "keys")
	return ReuseCase{A: vt.Bytes(keys[0]), B: vt.Bytes(keys[1]), C: vt.Bytes(keys[2]), V: vt.Bytes{byte(rapid.IntRange(1, 200).Draw(t, "v"))}}
}

// checkReuse: a batch whose PutChangeSet returned nil must be readable (LevelDB, right after a level-0 compaction
// that came out empty).
func checkReuse(c ReuseCase, o *vt.Obs) error {
	if len(c.A) == 0 || len(c.B) == 0 || len(c.C) == 0 || bytes.Equal(c.A, c.B) || bytes.Equal(c.A, c.C) || bytes.Equal(c.B, c.C) || len(c.V) == 0 {
		return fmt.Errorf("malformed reuse case")
	}
	stale, err := levelDBReuseScenario(c.A, c.B, c.C, c.V)
	if err != nil {
		return fmt.Errorf("infrastructure: %w", err)
	}
	o.Label("backend=leveldb")
	o.NonTrivial()
	if stale {
		if vt.Known(KnownLevelDBReuse) {
			o.Label("known:leveldb-reuse-reproduced")
			o.Excluded()
			return nil
		}
		return fmt.Errorf("LevelDB: PutChangeSet(%x := %x) returned nil but Get(%x) does not return it (batches before: %x:=01, %x:=08, %x:=2b, delete %x; Get(%x); level-0 compaction)", []byte(c.C), []byte(c.V), []byte(c.C), []byte(c.A), []byte(c.B), []byte(c.C), []byte(c.A), []byte(c.A))
	}
	return nil
}
