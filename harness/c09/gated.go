package c09

import (
	"errors"
	"fmt"

	"github.com/nspcc-dev/neo-go/pkg/core/storage"
	"verifharness/vt"
)

// gateStore sits between the bottom MemCachedStore and the real backend. When armed, PutChangeSet announces
// that it has been entered and then waits for the release before touching the backend: the harness owns the
// window in which MemCachedStore.persist has swapped its maps out (tempstore) but has not written them yet.
// Reads pass through untouched.
type gateStore struct {
	inner   storage.Store
	armed   bool
	entered chan struct{}
	release chan struct{}
	// fail (set before the release) makes the held PutChangeSet return errInjected instead of writing;
	// failOnce makes the next (not held) PutChangeSet fail at once.
	fail     bool
	failOnce bool
}

// errInjected is the backend failure the gate injects into PutChangeSet.
var errInjected = errors.New("c09: injected backend failure")

func newGate(inner storage.Store) *gateStore { return &gateStore{inner: inner} }

func (g *gateStore) arm() {
	g.armed = true
	g.fail = false
	g.entered = make(chan struct{}, 1)
	g.release = make(chan struct{})
}

func (g *gateStore) Get(k []byte) ([]byte, error) { return g.inner.Get(k) }
func (g *gateStore) Seek(rng storage.SeekRange, f func(k, v []byte) bool) {
	g.inner.Seek(rng, f)
}
func (g *gateStore) SeekGC(rng storage.SeekRange, f func(k, v []byte) (bool, bool)) error {
	return g.inner.SeekGC(rng, f)
}
func (g *gateStore) Close() error { return g.inner.Close() }
func (g *gateStore) PutChangeSet(puts, stor map[string][]byte) error {
	if g.armed {
		// armed/entered/release were written before the persisting goroutine was started (happens-before by `go`);
		// fail is written before close(release)
		g.entered <- struct{}{}
		<-g.release
		if g.fail {
			return errInjected
		}
	} else if g.failOnce {
		g.failOnce = false
		return errInjected
	}
	return g.inner.PutChangeSet(puts, stor)
}

// window: start bottom.Persist() in a goroutine, wait until it is blocked inside PutChangeSet of the gate
// (channel handshake), run the inner ops (queries must see the model: nothing missing, nothing stale; writes go
// to the fresh maps), release, join, audit again.
//
// Locks (memcached_store.go persist): plock is held for the whole Persist, mut is released before PutChangeSet of
// the lower store for Persist (not for PersistSync, which is why the window uses Persist only: every read of
// the bottom layer would block). Hence inside the window nothing may call Persist/PersistSync on the bottom layer.
func (r *runner) window(op *Op) error {
	if r.gate == nil || r.inWindow {
		return nil
	}
	if r.priv[0] {
		return nil
	}
	g := r.gate
	g.arm()
	snap := cloneMap(r.m.layers[0])
	done := make(chan error, 1)
	bottom := r.st[0]
	go func() {
		_, err := bottom.Persist()
		done <- err
	}()
	entered := false
	var perr error
	select {
	case <-g.entered:
		entered = true
	case perr = <-done:
		// nothing to persist: Persist returned without calling PutChangeSet
	}
	if !entered {
		g.armed = false
		if perr != nil {
			return fmt.Errorf("Persist of the empty bottom layer failed: %v", perr)
		}
		if len(snap) != 0 {
			return fmt.Errorf("Persist of a bottom layer with %d pending keys returned without writing them", len(snap))
		}
		return nil
	}
	if len(snap) == 0 {
		// cannot happen with the real code (keys == 0 returns early); keep the protocol alive anyway
		close(g.release)
		<-done
		g.armed = false
		return fmt.Errorf("Persist of an empty bottom layer called PutChangeSet")
	}
	r.sawWindow = true
	r.inWindow = true
	r.winWrites = map[string][]byte{}
	r.winSnap = snap
	released := false
	release := func() error {
		if released {
			return nil
		}
		released = true
		g.fail = op.Fail
		close(g.release)
		err := <-done
		g.armed = false
		g.fail = false
		r.inWindow = false
		if op.Fail {
			// The backend refused the batch: Persist must report it, the backend is untouched and the layer holds
			// the restored batch overlaid with everything written meanwhile (newer writes and deletions win) -
			// which is what the merged model map of the bottom layer already is.
			r.winWrites = nil
			r.winSnap = nil
			r.sawFailWin = true
			if !errors.Is(err, errInjected) {
				return fmt.Errorf("Persist returned %v although PutChangeSet of the backend failed with %q", err, errInjected)
			}
			return nil
		}
		// model: the swapped-out content reaches the backend, the bottom layer keeps what was written meanwhile
		for k, v := range snap {
			r.mapply(-1, k, v)
		}
		r.m.layers[0] = r.winWrites
		r.winWrites = nil
		r.winSnap = nil
		if err != nil {
			return fmt.Errorf("gated Persist failed: %v", err)
		}
		return nil
	}
	fail := func(err error) error {
		_ = release()
		return err
	}
	// every layer must already answer correctly in the window
	if err := r.auditFrom(0, "inside the Persist window (before inner ops)"); err != nil {
		return fail(err)
	}
	for i := range op.Inner {
		in := &op.Inner[i]
		if in.Kind == "window" || in.Kind == "gc" || in.Kind == "failflush" {
			continue
		}
		if err := r.exec(in); err != nil {
			return fail(fmt.Errorf("inside the Persist window, inner op %d (%s): %w", i, in.Kind, err))
		}
	}
	if err := r.auditFrom(0, "inside the Persist window (after inner ops)"); err != nil {
		return fail(err)
	}
	if op.Span != nil && r.kind != "bolt" {
		// an iteration that starts inside the window and ends after it must still equal the snapshot at its start
		sp := *op.Span
		q := *sp.Q
		q.Depth = 0
		sp.Q = &q
		sp.FlushAt = 0
		r.sawSpan = true
		if err := r.asyncCheck(r.layerAt(sp.At), &sp, false, release); err != nil {
			return fail(fmt.Errorf("iteration spanning the end of the Persist window: %w", err))
		}
	}
	if err := release(); err != nil {
		return err
	}
	when := "after the Persist window"
	if op.Fail {
		when = "after the FAILED Persist (backend refused the batch)"
	}
	if err := r.auditFrom(-1, when); err != nil {
		return err
	}
	if op.Fail && op.Retry {
		// the next successful Persist must write the right data
		if err := r.flushLayer(0, op.Mode&1); err != nil {
			return fmt.Errorf("Persist after a failed one: %w", err)
		}
		return r.auditFrom(-1, "after the successful Persist that followed a failed one")
	}
	return nil
}

func checkGated(c Case, o *vt.Obs) error {
	r, err := newRunner(&c, c.Backend, o, true, false)
	if err != nil {
		return err
	}
	defer r.close()
	if err := r.run(); err != nil {
		return err
	}
	r.labels()
	return nil
}
