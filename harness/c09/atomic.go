package c09

import (
	"bytes"
	"fmt"
	"os"

	"github.com/nspcc-dev/neo-go/pkg/core/storage"
	"pgregory.net/rapid"
	"verifharness/vt"
)

// atomic_batch: "one ordered map on every backend" includes that a change set is one update: PutChangeSet either
// applies all of its keys or, when the backend refuses it (a key the backend cannot hold: BoltDB takes no key above 32768
// bytes), none of them - also when the batch is much bigger than anything a backend may split
// internally.
type AtomicCase struct {
	Backend string `json:"backend"` // bolt | leveldb | mem
	N       int    `json:"n"`       // keys of the batch
	Bad     int    `json:"bad"`     // 0 none, 1 / 2 a key of 40000 bytes
	Pre     int    `json:"pre"`     // keys stored before (some of them overwritten / deleted by the batch)
}

func genAtomicCase(t *rapid.T) AtomicCase {
	return AtomicCase{
		Backend: rapid.SampledFrom([]string{"bolt", "bolt", "leveldb", "mem"}).Draw(t, "backend"),
		N:       rapid.SampledFrom([]int{3, 500, 16383, 16384, 16385, 40000}).Draw(t, "n"),
		Bad:     rapid.IntRange(0, 2).Draw(t, "bad"),
		Pre:     rapid.SampledFrom([]int{0, 10, 1000}).Draw(t, "pre"),
	}
}

func checkAtomicCase(c AtomicCase, o *vt.Obs) error {
	if c.N < 1 || c.N > 100000 || c.Pre < 0 || c.Pre > 10000 || c.Bad < 0 || c.Bad > 2 {
		return nil
	}
	st, dir, err := openBackend(c.Backend)
	if err != nil {
		return err
	}
	defer func() {
		st.Close()
		if dir != "" {
			os.RemoveAll(dir)
		}
	}()
	key := func(i int) string { return fmt.Sprintf("\x01k%07d", i) }
	before := map[string][]byte{}
	pre := map[string][]byte{}
	for i := 0; i < c.Pre; i++ {
		pre[key(i*3)] = []byte{byte(i), 1}
		before[key(i*3)] = []byte{byte(i), 1}
	}
	if err := st.PutChangeSet(pre, nil); err != nil {
		return fmt.Errorf("harness: storing the %d initial keys: %v", c.Pre, err)
	}
	batch := map[string][]byte{}
	for i := 0; i < c.N; i++ {
		if i%7 == 3 {
			batch[key(i)] = nil // deletion
		} else {
			batch[key(i)] = []byte{byte(i), byte(i >> 8), 2}
		}
	}
	switch c.Bad {
	case 1, 2:
		batch["\x01z"+string(bytes.Repeat([]byte{'x'}, 40000))] = []byte{1}
	}
	perr := st.PutChangeSet(batch, nil)
	after := map[string][]byte{}
	st.Seek(storage.SeekRange{Prefix: []byte{0x01}}, func(k, v []byte) bool {
		after[string(k)] = bytes.Clone(v)
		return true
	})
	want := before
	if perr == nil {
		want = map[string][]byte{}
		for k, v := range before {
			want[k] = v
		}
		for k, v := range batch {
			if v == nil {
				delete(want, k)
			} else {
				want[k] = v
			}
		}
		o.Labelf("atomic-%s-applied", c.Backend)
	} else {
		o.Labelf("atomic-%s-refused", c.Backend)
	}
	if len(after) != len(want) {
		return fmt.Errorf("%s: PutChangeSet of %d keys (bad key kind %d) over %d stored keys returned %v; the store holds %d keys afterwards, %d expected (%s): the change set was applied in part",
			c.Backend, len(batch), c.Bad, c.Pre, perr, len(after), len(want), map[bool]string{true: "all of the batch", false: "nothing of the batch"}[perr == nil])
	}
	for k, v := range want {
		if !bytes.Equal(after[k], v) {
			return fmt.Errorf("%s: PutChangeSet of %d keys returned %v; key %q holds %x afterwards, expected %x", c.Backend, len(batch), perr, k, after[k], v)
		}
	}
	o.Units(1)
	if perr != nil || c.N >= 16384 {
		o.NonTrivial()
	}
	return nil
}

func init() {
	vt.Register("atomic_batch", 0.002, genAtomicCase, checkAtomicCase)
}
