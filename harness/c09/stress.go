package c09

import (
	"bytes"
	"context"
	"encoding/binary"
	"errors"
	"fmt"
	"sync"
	"sync/atomic"
	"time"

	"github.com/nspcc-dev/neo-go/pkg/core/storage"
	"pgregory.net/rapid"
	"verifharness/vt"
)

// StressCase drives real goroutines (readers / one writer / one persister). It is STRESS, not schedule coverage:
// the Go scheduler picks the interleavings. Only schedule-independent clauses are asserted:
//   - a key committed before the run and never touched afterwards is always visible with its value (Get, Seek
//     forwards/backwards, SeekAsync), exactly once and in order;
//   - a group of keys always rewritten together by one PutChangeSet with a common tag is seen all-or-nothing
//     (one tag), never older than the tag whose write had returned before the read started, never going back.
type StressCase struct {
	Backend string `json:"backend"`
	Layers  int    `json:"layers"`  // shared MemCachedStore layers (1..3)
	Stable  int    `json:"stable"`  // number of stable keys
	Group   int    `json:"group"`   // keys per tagged batch
	Readers int    `json:"readers"` // reader goroutines
	Rounds  int    `json:"rounds"`  // writer iterations
	Spread  []int  `json:"spread"`  // where stable key i is committed: 0 = backend, j = layer j-1 (modulo)
	Sync    bool   `json:"sync"`    // persister uses PersistSync on the bottom layer every other time
	// FailEvery > 0: every FailEvery-th write of the backend fails (disk full, I/O error). The node logs a failed
	// flush and goes on (Blockchain.Run), so the readers keep running against the layer whose flush failed: nothing
	// may be lost, and nothing may crash.
	FailEvery int `json:"fail_every,omitempty"`
}

// flakyStore fails every n-th PutChangeSet.
type flakyStore struct {
	storage.Store
	every int
	n     atomic.Int64
}

func (f *flakyStore) PutChangeSet(puts, stor map[string][]byte) error {
	if f.every > 0 && f.n.Add(1)%int64(f.every) == 0 {
		time.Sleep(300 * time.Microsecond) // an I/O error is not instant: readers start scans in the meantime
		return errInjected
	}
	return f.Store.PutChangeSet(puts, stor)
}

func genStress(t *rapid.T) StressCase {
	c := StressCase{
		Backend: rapid.SampledFrom([]string{"mem", "mem", "mem", "bolt", "leveldb"}).Draw(t, "backend"),
		Layers:  rapid.IntRange(1, 3).Draw(t, "layers"),
		Stable:  rapid.IntRange(2, 12).Draw(t, "stable"),
		Group:   rapid.IntRange(2, 6).Draw(t, "group"),
		Readers: rapid.IntRange(1, 3).Draw(t, "readers"),
		Rounds:  rapid.IntRange(20, 200).Draw(t, "rounds"),
		Sync:    rapid.Bool().Draw(t, "sync"),
	}
	c.Spread = rapid.SliceOfN(rapid.IntRange(0, 3), c.Stable, c.Stable).Draw(t, "spread")
	if rapid.IntRange(0, 2).Draw(t, "flaky") == 0 {
		c.FailEvery = rapid.IntRange(2, 5).Draw(t, "fail_every")
	}
	return c
}

var (
	stressPfx = []byte{0x70, 0x61}
	groupPfx  = []byte{0x03, 0x62}
)

func stableKey(i int) []byte   { return append(bytes.Clone(stressPfx), byte(2*i)) }
func volatileKey(i int) []byte { return append(bytes.Clone(stressPfx), byte(2*i+1)) }
func stableVal(i int) []byte   { return []byte{0xaa, byte(i)} }
func groupKey(j int) []byte    { return append(bytes.Clone(groupPfx), byte(j)) }
func tagVal(tag uint32) []byte { return binary.BigEndian.AppendUint32(nil, tag) }

func checkStress(c StressCase, o *vt.Obs) error {
	if c.Layers < 1 || c.Layers > 3 || c.Stable < 1 || c.Stable > 100 || c.Group < 1 || c.Group > 50 || c.Readers < 1 || c.Readers > 8 || c.Rounds < 1 || c.Rounds > 100000 || len(c.Spread) != c.Stable {
		return fmt.Errorf("malformed stress case")
	}
	raw, dir, err := openBackend(c.Backend)
	if err != nil {
		return fmt.Errorf("infrastructure: %w", err)
	}
	rn := &runner{raw: raw, dir: dir}
	defer rn.close()
	var st []*storage.MemCachedStore
	var low storage.Store = raw
	if c.FailEvery > 0 {
		low = &flakyStore{Store: raw, every: c.FailEvery}
		o.Label("failing-flushes")
	}
	for i := 0; i < c.Layers; i++ {
		s := storage.NewMemCachedStore(low)
		st = append(st, s)
		low = s
	}
	top := st[len(st)-1]
	// commit the stable keys and the first tagged group before the run, spread over backend and layers
	for lvl := 0; lvl <= c.Layers; lvl++ {
		puts, stor := map[string][]byte{}, map[string][]byte{}
		for i := 0; i < c.Stable; i++ {
			if c.Spread[i]%(c.Layers+1) == lvl {
				stor[string(stableKey(i))] = stableVal(i)
			}
		}
		if lvl == 0 {
			for j := 0; j < c.Group; j++ {
				puts[string(groupKey(j))] = tagVal(0)
			}
			if err := raw.PutChangeSet(puts, stor); err != nil {
				return fmt.Errorf("infrastructure: initial PutChangeSet: %w", err)
			}
		} else if err := st[lvl-1].PutChangeSet(puts, stor); err != nil {
			return fmt.Errorf("initial PutChangeSet: %w", err)
		}
	}

	var (
		stop      atomic.Bool
		committed atomic.Uint32
		errMu     sync.Mutex
		firstErr  error
		wg        sync.WaitGroup
		reads     atomic.Int64
	)
	fail := func(f string, a ...any) {
		errMu.Lock()
		if firstErr == nil {
			firstErr = fmt.Errorf(f, a...)
		}
		errMu.Unlock()
		stop.Store(true)
	}
	failed := func() bool {
		errMu.Lock()
		defer errMu.Unlock()
		return firstErr != nil
	}

	// writer: volatile keys interleaved with the stable ones, tagged groups through PutChangeSet on the top layer
	wg.Add(1)
	go func() {
		defer wg.Done()
		for r := 1; r <= c.Rounds && !failed(); r++ {
			vk := volatileKey(r % (c.Stable + 1))
			if r%3 == 0 {
				top.Delete(vk)
			} else {
				top.Put(vk, []byte{byte(r)})
			}
			if r%2 == 0 {
				puts := map[string][]byte{}
				tag := uint32(r)
				for j := 0; j < c.Group; j++ {
					puts[string(groupKey(j))] = tagVal(tag)
				}
				if err := top.PutChangeSet(puts, map[string][]byte{}); err != nil {
					fail("PutChangeSet: %v", err)
					return
				}
				committed.Store(tag)
			}
		}
		stop.Store(true)
	}()
	// persister
	wg.Add(1)
	go func() {
		defer wg.Done()
		for n := 0; ; n++ {
			for i := len(st) - 1; i >= 0; i-- {
				var err error
				if i == 0 && c.Sync && n%2 == 1 {
					_, err = st[i].PersistSync()
				} else {
					_, err = st[i].Persist()
				}
				if err != nil && !(i == 0 && c.FailEvery > 0 && errors.Is(err, errInjected)) {
					fail("Persist of layer %d: %v", i, err)
					return
				}
			}
			if stop.Load() && n >= 2 {
				return
			}
		}
	}()
	// readers
	for rd := 0; rd < c.Readers; rd++ {
		wg.Add(1)
		go func(rd int) {
			defer wg.Done()
			var lastTag uint32
			for n := 0; ; n++ {
				// point reads
				for i := 0; i < c.Stable; i++ {
					v, err := top.Get(stableKey(i))
					if err != nil || !bytes.Equal(v, stableVal(i)) {
						fail("stress: reader %d: Get of stable key %x = %x, %v (want %x)", rd, stableKey(i), v, err, stableVal(i))
						return
					}
				}
				// range reads
				back := n%2 == 1
				var got []kv
				collect := func(k, v []byte) bool {
					got = append(got, kv{string(k), bytes.Clone(v)})
					return true
				}
				rng := storage.SeekRange{Prefix: bytes.Clone(stressPfx), Backwards: back}
				if n%3 == 2 {
					ctx, cancel := context.WithCancel(context.Background())
					for e := range top.SeekAsync(ctx, rng, false) {
						collect(e.Key, e.Value)
					}
					cancel()
				} else {
					top.Seek(rng, collect)
				}
				next := 0
				if back {
					next = c.Stable - 1
				}
				for gi, e := range got {
					if gi > 0 && ((!back && got[gi-1].k >= e.k) || (back && got[gi-1].k <= e.k)) {
						fail("stress: reader %d: range scan out of order or duplicate at %d: %s", rd, gi, fmtKVs(got))
						return
					}
					if e.k[len(e.k)-1]%2 == 0 { // stable
						i := int(e.k[len(e.k)-1]) / 2
						if i != next || !bytes.Equal(e.v, stableVal(i)) {
							fail("stress: reader %d: range scan (back=%v) shows stable key %x=%x where stable #%d was due: %s", rd, back, e.k, e.v, next, fmtKVs(got))
							return
						}
						if back {
							next--
						} else {
							next++
						}
					}
				}
				if (!back && next != c.Stable) || (back && next != -1) {
					fail("stress: reader %d: range scan (back=%v) misses stable keys: %s", rd, back, fmtKVs(got))
					return
				}
				// tagged group: all-or-nothing, not stale
				floor := committed.Load()
				got = got[:0]
				top.Seek(storage.SeekRange{Prefix: bytes.Clone(groupPfx)}, collect)
				if len(got) != c.Group {
					fail("stress: reader %d: group scan gives %d of %d keys: %s", rd, len(got), c.Group, fmtKVs(got))
					return
				}
				tag := binary.BigEndian.Uint32(got[0].v)
				for _, e := range got {
					if binary.BigEndian.Uint32(e.v) != tag {
						fail("stress: reader %d: half of a batch visible: %s", rd, fmtKVs(got))
						return
					}
				}
				if tag < floor || tag < lastTag {
					fail("stress: reader %d: stale batch: tag %d, committed before the read %d, seen earlier %d", rd, tag, floor, lastTag)
					return
				}
				lastTag = tag
				reads.Add(1)
				if stop.Load() && n >= 3 {
					return
				}
			}
		}(rd)
	}
	wg.Wait()
	if firstErr != nil {
		return firstErr
	}
	// quiescent: everything still there
	for i := 0; i < c.Stable; i++ {
		v, err := top.Get(stableKey(i))
		if err != nil || !bytes.Equal(v, stableVal(i)) {
			return fmt.Errorf("stress: after the run Get of stable key %x = %x, %v", stableKey(i), v, err)
		}
	}
	o.Label("stress")
	o.Label("backend=" + c.Backend)
	if _, ok := raw.(*ballastStore); ok {
		o.Label("known:leveldb-ballast")
		o.Excluded()
	}
	o.Units(int(reads.Load()))
	if c.Layers >= 2 {
		o.NonTrivial()
	}
	return nil
}
