package c09

import (
	"bytes"
	"encoding/json"
	"fmt"
	"os"
	"sort"
	"testing"

	"github.com/nspcc-dev/neo-go/pkg/core/storage"
	"verifharness/vt"
)

type chk struct {
	storage.Store
	n int
}

func (c *chk) PutChangeSet(p, s map[string][]byte) error {
	c.n++
	all := map[string][]byte{}
	for k, v := range p {
		all[k] = v
	}
	for k, v := range s {
		all[k] = v
	}
	err := c.Store.PutChangeSet(p, s)
	var ks []string
	for k := range all {
		ks = append(ks, k)
	}
	sort.Strings(ks)
	for _, k := range ks {
		v := all[k]
		got, gerr := c.Store.Get([]byte(k))
		ok := (v == nil && gerr != nil) || (v != nil && gerr == nil && bytes.Equal(got, v))
		fmt.Printf("  tx %d: %x := %x (del=%v)  readback %x err=%v %v\n", c.n, k, v, v == nil, got, gerr, map[bool]string{true: "", false: "<<<<<< MISMATCH"}[ok])
	}
	return err
}

func TestDebug(t *testing.T) {
	f := os.Getenv("C09_DEBUG")
	if f == "" {
		t.Skip()
	}
	b, _ := os.ReadFile(f)
	var env struct {
		Case json.RawMessage `json:"case"`
	}
	_ = json.Unmarshal(b, &env)
	var c Case
	if err := json.Unmarshal(env.Case, &c); err != nil {
		t.Fatal(err)
	}
	r, err := newRunner(&c, c.Backend, &vt.Obs{}, true, false)
	if err != nil {
		t.Fatal(err)
	}
	defer r.close()
	w := &chk{Store: r.raw}
	r.gate.inner = w
	fmt.Println("RESULT:", r.run())
}
