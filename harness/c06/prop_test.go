package c06

import (
	"testing"

	"verifharness/vt"
)

func TestProp(t *testing.T)   { vt.RunAll(t, 1000) }
func TestReplay(t *testing.T) { vt.ReplayAll(t) }
