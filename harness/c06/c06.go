// Package c06 checks property C06: only valid chain extensions are accepted; a rejected block changes nothing.
//
// A case is a chain state (configuration, generated prior history, optional crafted setup block, a mempool
// pre-fill, optionally already-known next headers), the valid next block B, the valid block after it B2, and ONE
// corruption of B out of a catalogue (catalogue.go). The corrupted block is submitted as bytes through
// Blockchain.AddBlock (or its header through AddHeaders); the verdict is compared with the verdict the property
// text gives for that corruption, and after a rejection everything observable (heights, tip hashes, full state dump,
// mempool content and order, backend dump after a forced flush) is compared with the state before / with a twin
// node that never saw the corrupted block. Then the correct block must still be accepted.
package c06

import (
	"pgregory.net/rapid"
	ck "verifharness/chainkit"
	"verifharness/vt"
)

// Corruption selects one catalogue entry and its parameters.
type Corruption struct {
	Kind string `json:"kind"` // catalogue entry name, or "*" = the whole catalogue (both submission paths)
	I    int    `json:"i"`    // first index selector (transactions, signatures), taken modulo what exists
	J    int    `json:"j"`    // second index selector
	X    uint32 `json:"x"`    // value selector (bit to flip, delta, ...)
}

// Case is one generated situation.
type Case struct {
	Chain         ck.ChainCfg    `json:"chain"`
	Node          ck.NodeCfg     `json:"node"`
	Blocks        []ck.BlockSpec `json:"blocks"`         // generated prior history after the bootstrap (0..10 blocks)
	Setup         bool           `json:"setup"`          // add a crafted block on top of the history (marker tx + a tx with a Conflicts attribute naming a not-yet-sent tx)
	Acct          int            `json:"acct"`           // account used for crafted transactions
	Next          ck.BlockSpec   `json:"next"`           // the valid next block B
	After         ck.BlockSpec   `json:"after"`          // the valid block after B
	Pool          []ck.Action    `json:"pool"`           // extra valid txs pooled on the node, not in B
	PoolMask      int            `json:"pool_mask"`      // bit i: B's i-th tx is in the node's mempool as well
	HeadersAhead  int            `json:"headers_ahead"`  // the node already knows the valid headers of B (1) and B2 (2)
	PersistBefore bool           `json:"persist_before"` // flush the node right before the submission
	Fresh         bool           `json:"fresh"`          // nodes replay everything from genesis (default: start from the flushed post-bootstrap backend, i.e. restarted at height 2)
	Via           string         `json:"via"`            // "block" (AddBlock) | "headers" (AddHeaders)
	Corr          Corruption     `json:"corr"`
}

func filler(t *rapid.T, label string, from int) ck.Action {
	return ck.Action{
		Kind:  "gas_transfer",
		From:  from,
		A:     rapid.IntRange(0, ck.NAccounts-1).Draw(t, label+"_to"),
		N:     rapid.Int64Range(1, 1000).Draw(t, label+"_amt"),
		Nonce: rapid.Uint32().Draw(t, label+"_nonce"),
		VUB:   uint32(rapid.IntRange(0, 3).Draw(t, label+"_vub")),
		Scope: 1,
	}
}

func mix(x uint64) uint64 { // splitmix64 finaliser
	x += 0x9e3779b97f4a7c15
	x = (x ^ (x >> 30)) * 0xbf58476d1ce4e5b9
	x = (x ^ (x >> 27)) * 0x94d049bb133111eb
	return x ^ (x >> 31)
}

func genCase(sweep bool) func(t *rapid.T) Case {
	return func(t *rapid.T) Case {
		c := Case{Chain: ck.GenChainCfg(t, false)}
		c.Node.Backend = "mem"
		switch rapid.IntRange(0, 4).Draw(t, "nodemode") {
		case 3:
			c.Node.KeepOnlyLatest = true
		case 4:
			c.Node.RemoveUntraceable = true
			c.Node.GCPeriod = uint32(rapid.IntRange(1, 4).Draw(t, "gcp"))
		}
		bias := ck.BalancedBias(c.Chain.P2PSig)
		nb := rapid.IntRange(0, 10).Draw(t, "nblocks")
		for i := 0; i < nb; i++ {
			c.Blocks = append(c.Blocks, ck.GenBlock(t, bias, 4))
		}
		c.Next = ck.GenBlock(t, bias, 6)
		c.After = ck.GenBlock(t, bias, 2)
		c.Acct = rapid.IntRange(0, ck.NAccounts-1).Draw(t, "acct")
		np := rapid.SampledFrom([]int{0, 1, 2, 2, 3, 4}).Draw(t, "npool")
		for i := 0; i < np; i++ {
			if rapid.Bool().Draw(t, "pool_simple") {
				c.Pool = append(c.Pool, filler(t, "pool", rapid.IntRange(0, ck.NAccounts-1).Draw(t, "pool_from")))
			} else {
				c.Pool = append(c.Pool, ck.GenAction(t, bias))
			}
		}
		c.PoolMask = rapid.SampledFrom([]int{0, 0, 0xff, 0xff, 1, 2, 5, 0xaa}).Draw(t, "poolmask")
		c.HeadersAhead = rapid.SampledFrom([]int{0, 0, 0, 0, 1, 2}).Draw(t, "ahead")
		c.PersistBefore = rapid.Bool().Draw(t, "persist_before")
		c.Fresh = rapid.IntRange(0, 7).Draw(t, "fresh") == 7
		var e *entry
		if sweep {
			// The entries about the previous state root need state roots in headers: most sweeps are on such chains.
			if rapid.IntRange(0, 3).Draw(t, "sweep_srih") != 0 {
				c.Chain.SRIH = true
			}
			c.Corr.Kind = "*"
			c.Via = "block"
			c.Setup = true // every sweep covers the on-chain Conflicts entries
		} else {
			_, nv := c.Chain.Sizes()
			ks := kindsFor(c.Chain.SRIH, nv > 1)
			// rapid's integer draws favour small values; spread them with a bijective mixer so that kinds are uniform.
			c.Corr.Kind = ks[mix(rapid.Uint64().Draw(t, "kind"))%uint64(len(ks))]
			e = byKind[c.Corr.Kind]
			c.Via = "block"
			if !e.blockOnly && rapid.IntRange(0, 3).Draw(t, "via") == 0 {
				c.Via = "headers"
				c.HeadersAhead = 0
			}
			c.Setup = e.needSetup || rapid.IntRange(0, 3).Draw(t, "setup") == 0
		}
		c.Corr.I = rapid.IntRange(0, 7).Draw(t, "ci")
		c.Corr.J = rapid.IntRange(0, 7).Draw(t, "cj")
		c.Corr.X = rapid.Uint32().Draw(t, "cx")
		if sweep || e.txKind {
			// Transaction-list corruptions need transactions: two simple transfers by different accounts.
			f1 := rapid.IntRange(0, ck.NAccounts-1).Draw(t, "f1")
			f2 := (f1 + rapid.IntRange(1, ck.NAccounts-1).Draw(t, "f2")) % ck.NAccounts
			c.Next.Txs = append(c.Next.Txs, filler(t, "fill1", f1), filler(t, "fill2", f2))
			if rapid.Bool().Draw(t, "fill3") {
				c.Next.Txs = append(c.Next.Txs, filler(t, "fill3", f1))
			}
		}
		// Nodes that trust the block signature and do not verify the transactions of a block (VerifyTransactions:
		// false, the setting of the public network configurations): every verdict that does not rest on the validity
		// of an individual transaction stays the same.
		if !sweep && structural(e) && rapid.IntRange(0, 3).Draw(t, "noverifytx") == 0 {
			c.Node.NoVerifyTx = true
		}
		return c
	}
}

func init() {
	vt.PropertyID = "C06"
	vt.Register("single", 1.0, genCase(false), checkCase)
	vt.Register("sweep", 0.02, genCase(true), checkCase)
}

// structural tells whether the verdict of a catalogue entry is independent of transaction verification.
func structural(e *entry) bool {
	if e == nil || e.special != nil {
		return false
	}
	if !e.txKind {
		return true
	}
	switch e.name {
	case "tx-dup", "tx-dup-tail-nomerkle", "tx-drop-nomerkle", "tx-add-nomerkle", "tx-drop", "enc-txcount-minus":
		return true
	}
	return false
}
