package c06

import (
	"bytes"
	"fmt"

	"github.com/nspcc-dev/neo-go/pkg/core/block"
	"github.com/nspcc-dev/neo-go/pkg/core/transaction"
	"github.com/nspcc-dev/neo-go/pkg/io"
	"github.com/nspcc-dev/neo-go/pkg/util"
	"github.com/nspcc-dev/neo-go/pkg/vm/emit"
	ck "verifharness/chainkit"
	"verifharness/vt"
)

type verdict int

const (
	vReject verdict = iota // the property text requires rejection
	vAccept                // negative control: the block satisfies every listed condition and an honest consensus could have produced it
	vEither                // the property text is silent: only the consequences of the observed verdict are checked
)

func (v verdict) String() string { return [...]string{"reject", "accept", "either"}[v] }

// mutant is a corrupted block plus what the property text says about it.
type mutant struct {
	raw  []byte       // wire bytes (submitted after decoding them the way a peer does)
	api  *block.Block // API-level submission of a struct no decoder produces (state-root flag), AddBlock only
	expB verdict      // expected verdict of AddBlock
	expH verdict      // expected verdict of AddHeaders for its header
	// hdrValid: the header itself is validly signed by the designated consensus address and linked to the tip
	// (next index, tip hash, later timestamp, matching previous state root): the property allows recording it.
	hdrValid bool
	cont     string // who signs the continuation after acceptance: "" validators | "acct" account 0 | "none" nobody can
	skip     string // non-empty: the entry does not apply to this state (reason)
	known    string // key of a known finding this shape runs into (verdict not asserted when listed)
	labels   []string
}

type entry struct {
	name      string
	srihOnly  bool
	needSetup bool
	txKind    bool // needs transactions in B
	blockOnly bool // no AddHeaders sub-mode
	multiOnly bool // needs more than one validator
	why       string
	weight    int // relative frequency in the single check (0 = 1)
	mk        func(w *world, cr Corruption) mutant
	special   func(w *world, cr Corruption, o *vt.Obs) error // own flow instead of mk
}

var (
	catalogue []*entry
	byKind    = map[string]*entry{}
)

func kindsFor(srih, multi bool) []string {
	var out []string
	for _, e := range catalogue {
		if e.srihOnly && !srih || e.multiOnly && !multi {
			continue
		}
		for i := 0; i < max(1, e.weight); i++ {
			out = append(out, e.name)
		}
	}
	return out
}

func reg(e *entry) {
	catalogue = append(catalogue, e)
	byKind[e.name] = e
}

func flipBit256(h util.Uint256, x uint32) util.Uint256 {
	h[(x/8)%32] ^= 1 << (x % 8)
	return h
}

func flipBit160(h util.Uint160, x uint32) util.Uint160 {
	h[(x/8)%20] ^= 1 << (x % 8)
	return h
}

func mod(i, n int) int {
	if n <= 0 {
		return 0
	}
	return ((i % n) + n) % n
}

// hdrMut: edit header fields of B, re-sign with the validators.
func hdrMut(w *world, f func(b *block.Block)) *block.Block {
	nb := w.freshB()
	f(nb)
	sign(nb, w.vals)
	return nb
}

// txMut: edit the tx list of B, recompute the Merkle root, re-sign.
func txMut(w *world, f func(txs []*transaction.Transaction) []*transaction.Transaction) *block.Block {
	nb := w.freshB()
	nb.Transactions = f(nb.Transactions)
	nb.RebuildMerkleRoot()
	sign(nb, w.vals)
	return nb
}

func insertAt(txs []*transaction.Transaction, pos int, tx ...*transaction.Transaction) []*transaction.Transaction {
	pos = mod(pos, len(txs)+1)
	out := append([]*transaction.Transaction{}, txs[:pos]...)
	out = append(out, tx...)
	return append(out, txs[pos:]...)
}

func hasConflictsAttr(txs []*transaction.Transaction) bool {
	for _, tx := range txs {
		if tx.HasAttribute(transaction.ConflictsT) {
			return true
		}
	}
	return false
}

// sigs returns the invocation script made of the given signatures.
func invocation(sigs ...[]byte) []byte {
	bw := io.NewBufBinWriter()
	for _, s := range sigs {
		emit.Bytes(bw.BinWriter, s)
	}
	return bw.Bytes()
}

func sigsOf(a ck.Actor, b *block.Block, idx ...int) [][]byte {
	var out [][]byte
	for _, i := range idx {
		out = append(out, a.Keys[i].Priv.SignHashable(uint32(ck.Magic), b))
	}
	return out
}

func seq(from, n int) []int {
	var out []int
	for i := 0; i < n; i++ {
		out = append(out, from+i)
	}
	return out
}

// hashableLen is the length of the encoded hashable header fields.
func hashableLen(srih bool) int {
	n := 4 + 32 + 32 + 8 + 8 + 4 + 1 + 20
	if srih {
		n += 32
	}
	return n
}

func splice(raw []byte, at, del int, ins ...byte) []byte {
	out := append([]byte{}, raw[:at]...)
	out = append(out, ins...)
	return append(out, raw[at+del:]...)
}

func init() {
	// ------------------------------------------------------------------ header fields (re-signed by the validators)
	reg(&entry{name: "hdr-version", why: "version is not among the listed conditions: no verdict",
		mk: func(w *world, cr Corruption) mutant {
			nb := hdrMut(w, func(b *block.Block) { b.Version = 1 + cr.X%3 })
			return mutant{raw: encBlock(nb), expB: vEither, expH: vEither, hdrValid: true}
		}})
	reg(&entry{name: "hdr-prevhash-flip", why: "does not name the tip as previous block",
		mk: func(w *world, cr Corruption) mutant {
			nb := hdrMut(w, func(b *block.Block) { b.PrevHash = flipBit256(b.PrevHash, cr.X) })
			return mutant{raw: encBlock(nb), expB: vReject, expH: vReject}
		}})
	reg(&entry{name: "hdr-prevhash-older", why: "names block N-1 (not the tip) as previous block",
		mk: func(w *world, cr Corruption) mutant {
			nb := hdrMut(w, func(b *block.Block) { b.PrevHash = w.prev.PrevHash })
			return mutant{raw: encBlock(nb), expB: vReject, expH: vReject}
		}})
	reg(&entry{name: "hdr-merkle-flip", why: "does not carry the Merkle root of its transactions (the header alone is fine)",
		mk: func(w *world, cr Corruption) mutant {
			nb := hdrMut(w, func(b *block.Block) { b.MerkleRoot = flipBit256(b.MerkleRoot, cr.X) })
			return mutant{raw: encBlock(nb), expB: vReject, expH: vEither, hdrValid: true}
		}})
	reg(&entry{name: "hdr-time-equal", why: "timestamp not strictly later",
		mk: func(w *world, cr Corruption) mutant {
			nb := hdrMut(w, func(b *block.Block) { b.Timestamp = w.prev.Timestamp })
			return mutant{raw: encBlock(nb), expB: vReject, expH: vReject}
		}})
	reg(&entry{name: "hdr-time-less", why: "timestamp earlier than the tip's",
		mk: func(w *world, cr Corruption) mutant {
			nb := hdrMut(w, func(b *block.Block) {
				d := uint64(1 + cr.X%5000)
				if d > w.prev.Timestamp {
					d = w.prev.Timestamp
				}
				b.Timestamp = w.prev.Timestamp - d
			})
			return mutant{raw: encBlock(nb), expB: vReject, expH: vReject}
		}})
	reg(&entry{name: "hdr-time-later", why: "control: a later timestamp still is strictly later",
		mk: func(w *world, cr Corruption) mutant {
			nb := hdrMut(w, func(b *block.Block) { b.Timestamp += uint64(1 + cr.X%100000) })
			return mutant{raw: encBlock(nb), expB: vAccept, expH: vAccept, hdrValid: true}
		}})
	reg(&entry{name: "hdr-index-plus", why: "index N+2 on the tip hash: not the next index",
		mk: func(w *world, cr Corruption) mutant {
			nb := hdrMut(w, func(b *block.Block) { b.Index++ })
			return mutant{raw: encBlock(nb), expB: vReject, expH: vReject}
		}})
	reg(&entry{name: "future-block", why: "the valid block N+2 (index+1 with its matching previous hash): does not extend the tip",
		mk: func(w *world, cr Corruption) mutant {
			return mutant{raw: append([]byte{}, w.B2raw...), expB: vReject, expH: vReject}
		}})
	reg(&entry{name: "hdr-index-minus", why: "index N on the tip hash: not the next index",
		mk: func(w *world, cr Corruption) mutant {
			nb := hdrMut(w, func(b *block.Block) { b.Index-- })
			return mutant{raw: encBlock(nb), expB: vReject, expH: vReject}
		}})
	reg(&entry{name: "hdr-index-minus-prev", why: "index N on the hash of N-1: an alternative to the tip itself",
		mk: func(w *world, cr Corruption) mutant {
			nb := hdrMut(w, func(b *block.Block) { b.Index--; b.PrevHash = w.prev.PrevHash })
			return mutant{raw: encBlock(nb), expB: vReject, expH: vReject}
		}})
	reg(&entry{name: "replay-tip", why: "block N again: already on chain, not the next index",
		mk: func(w *world, cr Corruption) mutant {
			return mutant{raw: append([]byte{}, w.prevRaw...), expB: vReject, expH: vReject}
		}})
	reg(&entry{name: "hdr-primary-inrange", why: "control: the primary index is not among the listed conditions and any validator may be primary",
		mk: func(w *world, cr Corruption) mutant {
			n := len(w.vals.Keys)
			nb := hdrMut(w, func(b *block.Block) {
				b.PrimaryIndex = byte((int(b.PrimaryIndex) + 1 + mod(int(cr.X), max(1, n-1))) % n)
			})
			return mutant{raw: encBlock(nb), expB: vAccept, expH: vAccept, hdrValid: true}
		}})
	reg(&entry{name: "hdr-primary-outofrange", why: "primary index beyond the validators: not among the listed conditions: no verdict",
		mk: func(w *world, cr Corruption) mutant {
			n := len(w.vals.Keys)
			nb := hdrMut(w, func(b *block.Block) { b.PrimaryIndex = byte(n + int(cr.X)%(256-n)) })
			return mutant{raw: encBlock(nb), expB: vEither, expH: vEither, hdrValid: true}
		}})
	reg(&entry{name: "hdr-nextconsensus-acct", why: "next consensus address is not constrained by the text: no verdict; if accepted the NEXT block must be signed by that address",
		mk: func(w *world, cr Corruption) mutant {
			nb := hdrMut(w, func(b *block.Block) { b.NextConsensus = ck.Accounts[0].Hash })
			return mutant{raw: encBlock(nb), expB: vEither, expH: vEither, hdrValid: true, cont: "acct"}
		}})
	reg(&entry{name: "hdr-nextconsensus-flip", why: "as above with an address nobody controls",
		mk: func(w *world, cr Corruption) mutant {
			nb := hdrMut(w, func(b *block.Block) { b.NextConsensus = flipBit160(b.NextConsensus, cr.X) })
			return mutant{raw: encBlock(nb), expB: vEither, expH: vEither, hdrValid: true, cont: "none"}
		}})
	reg(&entry{name: "hdr-nonce", why: "control: the nonce is free",
		mk: func(w *world, cr Corruption) mutant {
			nb := hdrMut(w, func(b *block.Block) { b.Nonce ^= uint64(cr.X) | 1<<40 })
			return mutant{raw: encBlock(nb), expB: vAccept, expH: vAccept, hdrValid: true}
		}})
	// ------------------------------------------------------------------ state root
	reg(&entry{name: "sr-prevroot-flip", srihOnly: true, why: "previous state root differs from the local one",
		mk: func(w *world, cr Corruption) mutant {
			nb := hdrMut(w, func(b *block.Block) { b.PrevStateRoot = flipBit256(b.PrevStateRoot, cr.X) })
			return mutant{raw: encBlock(nb), expB: vReject, expH: vReject}
		}})
	reg(&entry{name: "sr-prevroot-older", srihOnly: true, why: "carries the state root of N-1 instead of N",
		mk: func(w *world, cr Corruption) mutant {
			if w.rootPP == w.rootN {
				return mutant{skip: "state root did not change in block N"}
			}
			nb := hdrMut(w, func(b *block.Block) { b.PrevStateRoot = w.rootPP })
			return mutant{raw: encBlock(nb), expB: vReject, expH: vReject}
		}})
	reg(&entry{name: "sr-flag-wire", why: "encoded with the other state-root-in-header setting (hash and signature follow that encoding): read by this network's decoder it is a different, unsigned block or garbage",
		mk: func(w *world, cr Corruption) mutant {
			nb := hdrMut(w, func(b *block.Block) {
				b.StateRootEnabled = !b.StateRootEnabled
				b.PrevStateRoot = w.rootN
			})
			return mutant{raw: encBlock(nb), expB: vReject, expH: vReject}
		}})
	reg(&entry{name: "sr-flag-api", blockOnly: true, why: "struct with the other state-root setting handed to AddBlock: on a state-root chain it carries no matching previous state root; on a plain chain the text is silent",
		mk: func(w *world, cr Corruption) mutant {
			nb := hdrMut(w, func(b *block.Block) {
				b.StateRootEnabled = !b.StateRootEnabled
				b.PrevStateRoot = w.rootN
			})
			m := mutant{api: nb, expB: vEither, expH: vEither}
			if w.srih {
				m.expB = vReject
			}
			return m
		}})
	for a := 1; a <= 3; a++ {
		a := a
		name := "sr-next-header-mismatch"
		if a > 1 {
			name = fmt.Sprintf("sr-next-header-mismatch-%dahead", a)
		}
		reg(&entry{name: name, srihOnly: true, blockOnly: true, weight: 3,
			special: func(w *world, cr Corruption, o *vt.Obs) error { return runNextHeaderMismatch(w, cr, o, name, a) },
			why: fmt.Sprintf("the node's header chain is %d header(s) ahead of the block under test (B, or B2 after B went in); the header right after that block is validly signed but its previous state root is not the one the block produces%s: the block is executed, then refused, and the refusal must leave no trace",
				a, map[bool]string{true: " (it is a middle header: more headers follow it)", false: " (it is the last known header)"}[a > 1])})
	}
	// ------------------------------------------------------------------ witness (header untouched: same hash as B)
	wit := func(name, why string, exp verdict, f func(w *world, cr Corruption, b *block.Block) string) {
		multi := name == "wit-reordered" || name == "wit-dup-sig" || name == "wit-extra-sig" || name == "wit-other-sigset"
		reg(&entry{name: name, why: why, multiOnly: multi, mk: func(w *world, cr Corruption) mutant {
			nb := w.freshB()
			if s := f(w, cr, nb); s != "" {
				return mutant{skip: s}
			}
			return mutant{raw: encBlock(nb), expB: exp, expH: exp, hdrValid: exp != vReject}
		}})
	}
	wit("wit-m-minus-1", "one signature short", vReject, func(w *world, cr Corruption, b *block.Block) string {
		b.Script.InvocationScript = invocation(sigsOf(w.vals, b, seq(0, w.vals.M-1)...)...)
		return ""
	})
	wit("wit-wrong-key", "one signature made by a key that is no validator", vReject, func(w *world, cr Corruption, b *block.Block) string {
		s := sigsOf(w.vals, b, seq(0, w.vals.M)...)
		s[mod(cr.I, len(s))] = ck.Accounts[0].Priv.SignHashable(uint32(ck.Magic), b)
		b.Script.InvocationScript = invocation(s...)
		return ""
	})
	wit("wit-sig-bitflip", "one signature bit flipped", vReject, func(w *world, cr Corruption, b *block.Block) string {
		s := sigsOf(w.vals, b, seq(0, w.vals.M)...)
		i := mod(cr.I, len(s))
		s[i][(cr.X/8)%64] ^= 1 << (cr.X % 8)
		b.Script.InvocationScript = invocation(s...)
		return ""
	})
	wit("wit-reordered", "signatures not in the order of the keys (multi-signature verification consumes them in order)", vReject, func(w *world, cr Corruption, b *block.Block) string {
		if w.vals.M < 2 {
			return "single signature"
		}
		s := sigsOf(w.vals, b, seq(0, w.vals.M)...)
		i := mod(cr.I, len(s)-1)
		s[i], s[i+1] = s[i+1], s[i]
		b.Script.InvocationScript = invocation(s...)
		return ""
	})
	wit("wit-dup-sig", "the same signature twice instead of two signers", vReject, func(w *world, cr Corruption, b *block.Block) string {
		if w.vals.M < 2 {
			return "single signature"
		}
		s := sigsOf(w.vals, b, seq(0, w.vals.M)...)
		s[1] = s[0]
		b.Script.InvocationScript = invocation(s...)
		return ""
	})
	wit("wit-extra-sig", "one signature more than required: the text does not say", vEither, func(w *world, cr Corruption, b *block.Block) string {
		if len(w.vals.Keys) <= w.vals.M {
			return "no spare validator"
		}
		b.Script.InvocationScript = invocation(sigsOf(w.vals, b, seq(0, w.vals.M+1)...)...)
		return ""
	})
	wit("wit-other-sigset", "control: signed by another sufficient subset of the validators", vAccept, func(w *world, cr Corruption, b *block.Block) string {
		if len(w.vals.Keys) <= w.vals.M {
			return "no spare validator"
		}
		b.Script.InvocationScript = invocation(sigsOf(w.vals, b, seq(1, w.vals.M)...)...)
		return ""
	})
	wit("wit-foreign-script", "verification script of somebody else (validly signed by him): not the designated address", vReject, func(w *world, cr Corruption, b *block.Block) string {
		if cr.X%2 == 0 {
			b.Script.VerificationScript = append([]byte{}, ck.Accounts[0].Ver...)
			b.Script.InvocationScript = invocation(ck.Accounts[0].Priv.SignHashable(uint32(ck.Magic), b))
		} else {
			b.Script.VerificationScript = []byte{0x11} // PUSH1: "always true"
			b.Script.InvocationScript = nil
		}
		return ""
	})
	wit("wit-empty", "no witness scripts at all", vReject, func(w *world, cr Corruption, b *block.Block) string {
		b.Script = transaction.Witness{InvocationScript: []byte{}, VerificationScript: []byte{}}
		return ""
	})
	wit("wit-garbage-invocation", "invocation script is not a list of signatures", vReject, func(w *world, cr Corruption, b *block.Block) string {
		b.Script.InvocationScript = [][]byte{{0x40}, {0x11}, {0x0c, 0x40}, {0x10, 0x10, 0x10}}[cr.X%4]
		return ""
	})
	// ------------------------------------------------------------------ transaction list
	tx := func(name, why string, needSetup bool, f func(w *world, cr Corruption) mutant) {
		reg(&entry{name: name, why: why, txKind: true, needSetup: needSetup, mk: f})
	}
	tx("tx-reorder", "control when no Conflicts attribute is involved (fees of one sender are checked as a sum, independent of order)", false,
		func(w *world, cr Corruption) mutant {
			n := len(w.B.Transactions)
			if n < 2 {
				return mutant{skip: "fewer than 2 transactions"}
			}
			i := mod(cr.I, n)
			j := (i + 1 + mod(cr.J, n-1)) % n
			nb := txMut(w, func(t []*transaction.Transaction) []*transaction.Transaction { t[i], t[j] = t[j], t[i]; return t })
			m := mutant{raw: encBlock(nb), expB: vAccept, expH: vAccept, hdrValid: true}
			if hasConflictsAttr(w.B.Transactions) {
				m.expB = vEither
			}
			return m
		})
	tx("tx-dup", "the same transaction twice", false, func(w *world, cr Corruption) mutant {
		n := len(w.B.Transactions)
		if n < 1 {
			return mutant{skip: "no transactions"}
		}
		nb := txMut(w, func(t []*transaction.Transaction) []*transaction.Transaction {
			return insertAt(t, cr.J, cloneTx(t[mod(cr.I, n)]))
		})
		return mutant{raw: encBlock(nb), expB: vReject, expH: vAccept, hdrValid: true}
	})
	tx("tx-dup-tail-nomerkle", "the last transaction(s) repeated, header untouched: an odd Merkle leaf is paired with itself, so the root, the hash and the witness are B's own, but the list holds a transaction twice", false,
		func(w *world, cr Corruption) mutant {
			n := len(w.B.Transactions)
			nb := w.freshB()
			switch {
			case n%2 == 1:
				nb.Transactions = append(nb.Transactions, cloneTx(nb.Transactions[n-1]))
			case n%4 == 2 && n > 2:
				nb.Transactions = append(nb.Transactions, cloneTx(nb.Transactions[n-2]), cloneTx(nb.Transactions[n-1]))
			default:
				return mutant{skip: "transaction count gives no odd Merkle level"}
			}
			if nb.ComputeMerkleRoot() != w.B.MerkleRoot {
				return mutant{skip: "harness: Merkle root changed"}
			}
			return mutant{raw: encBlock(nb), expB: vReject, expH: vAccept, hdrValid: true, labels: []string{"tx-dup-tail-same-root"}}
		})
	tx("tx-drop-nomerkle", "a transaction removed, header untouched: Merkle root mismatch (the header is B's own valid header)", false,
		func(w *world, cr Corruption) mutant {
			n := len(w.B.Transactions)
			if n < 1 {
				return mutant{skip: "no transactions"}
			}
			nb := w.freshB()
			i := mod(cr.I, n)
			nb.Transactions = append(nb.Transactions[:i], nb.Transactions[i+1:]...)
			return mutant{raw: encBlock(nb), expB: vReject, expH: vAccept, hdrValid: true}
		})
	tx("tx-drop", "control: a transaction removed, Merkle root recomputed, re-signed (validity of the others does not depend on it)", false,
		func(w *world, cr Corruption) mutant {
			n := len(w.B.Transactions)
			if n < 1 {
				return mutant{skip: "no transactions"}
			}
			i := mod(cr.I, n)
			nb := txMut(w, func(t []*transaction.Transaction) []*transaction.Transaction { return append(t[:i], t[i+1:]...) })
			return mutant{raw: encBlock(nb), expB: vAccept, expH: vAccept, hdrValid: true}
		})
	tx("tx-add-nomerkle", "a valid transaction appended, header untouched: Merkle root mismatch", false,
		func(w *world, cr Corruption) mutant {
			nb := w.freshB()
			nb.Transactions = insertAt(nb.Transactions, cr.J, cloneTx(w.extraOK))
			return mutant{raw: encBlock(nb), expB: vReject, expH: vAccept, hdrValid: true}
		})
	alter := func(name, why string, f func(t *transaction.Transaction, cr Corruption)) {
		tx(name, why+": the signatures no longer cover the content", false, func(w *world, cr Corruption) mutant {
			n := len(w.B.Transactions)
			if n < 1 {
				return mutant{skip: "no transactions"}
			}
			i := mod(cr.I, n)
			nb := txMut(w, func(t []*transaction.Transaction) []*transaction.Transaction {
				t[i] = remakeTx(t[i], func(x *transaction.Transaction) { f(x, cr) })
				return t
			})
			return mutant{raw: encBlock(nb), expB: vReject, expH: vAccept, hdrValid: true}
		})
	}
	alter("tx-alter-script", "a script byte changed", func(t *transaction.Transaction, cr Corruption) {
		t.Script[int(cr.X/8)%len(t.Script)] ^= 1 << (cr.X % 8)
	})
	alter("tx-alter-sysfee", "system fee changed", func(t *transaction.Transaction, cr Corruption) { t.SystemFee += 1 + int64(cr.X%1000) })
	alter("tx-alter-netfee", "network fee raised", func(t *transaction.Transaction, cr Corruption) { t.NetworkFee += 1 + int64(cr.X%1000) })
	alter("tx-alter-nonce", "nonce changed", func(t *transaction.Transaction, cr Corruption) { t.Nonce ^= 1 << (cr.X % 32) })
	alter("tx-alter-vub", "ValidUntilBlock changed", func(t *transaction.Transaction, cr Corruption) {
		if cr.X%2 == 0 || t.ValidUntilBlock < 2 {
			t.ValidUntilBlock++
		} else {
			t.ValidUntilBlock--
		}
	})
	alter("tx-alter-scope", "witness scope of the sender changed", func(t *transaction.Transaction, cr Corruption) {
		if t.Signers[0].Scopes == transaction.Global {
			t.Signers[0].Scopes = transaction.CalledByEntry
		} else {
			t.Signers[0].Scopes = transaction.Global
		}
	})
	tx("tx-alter-witness", "a bit of a transaction's signature flipped (transaction hash, Merkle root and header untouched): that transaction is not validly signed", false,
		func(w *world, cr Corruption) mutant {
			n := len(w.B.Transactions)
			if n < 1 {
				return mutant{skip: "no transactions"}
			}
			i := mod(cr.I, n)
			nb := w.freshB()
			inv := nb.Transactions[i].Scripts[0].InvocationScript
			if len(inv) < 66 {
				return mutant{skip: "sender witness is not a signature"}
			}
			nb.Transactions[i] = remakeTx(nb.Transactions[i], func(x *transaction.Transaction) {
				x.Scripts[0].InvocationScript[2+int(cr.X/8)%64] ^= 1 << (cr.X % 8)
			})
			m := mutant{raw: encBlock(nb), expB: vReject, expH: vAccept, hdrValid: true}
			if w.c.PoolMask&(1<<i) != 0 {
				m.known = "pooled-tx-witness-not-verified"
			}
			return m
		})
	withTx := func(name, why string, needSetup bool, known string, pick func(w *world, cr Corruption) ([]*transaction.Transaction, string)) {
		tx(name, why, needSetup, func(w *world, cr Corruption) mutant {
			add, skip := pick(w, cr)
			if skip != "" {
				return mutant{skip: skip}
			}
			nb := txMut(w, func(t []*transaction.Transaction) []*transaction.Transaction {
				var cp []*transaction.Transaction
				for _, a := range add {
					if a == w.dupAttr { // its encoding does not decode (that is the point): no copy through the codec
						cp = append(cp, a)
						continue
					}
					cp = append(cp, cloneTx(a))
				}
				return insertAt(t, cr.J, cp...)
			})
			return mutant{raw: encBlock(nb), expB: vReject, expH: vAccept, hdrValid: true, known: known}
		})
	}
	withTx("tx-expired", "contains a correctly signed transaction whose ValidUntilBlock is the current height", false, "",
		func(w *world, cr Corruption) ([]*transaction.Transaction, string) {
			return []*transaction.Transaction{w.expired}, ""
		})
	withTx("tx-nvb-future", "contains a correctly signed transaction whose NotValidBefore height is above the block's index", false, "",
		func(w *world, cr Corruption) ([]*transaction.Transaction, string) {
			return []*transaction.Transaction{w.nvbFuture}, ""
		})
	withTx("tx-high-nocommittee", "contains a HighPriority transaction that the committee did not sign", false, "",
		func(w *world, cr Corruption) ([]*transaction.Transaction, string) {
			return []*transaction.Transaction{w.highNoCommittee}, ""
		})
	withTx("tx-dup-attribute", "contains a transaction carrying the same single-use attribute twice", false, "",
		func(w *world, cr Corruption) ([]*transaction.Transaction, string) {
			return []*transaction.Transaction{w.dupAttr}, ""
		})
	withTx("tx-vub-far", "contains a transaction valid until beyond the allowed increment", false, "",
		func(w *world, cr Corruption) ([]*transaction.Transaction, string) {
			return []*transaction.Transaction{w.far}, ""
		})
	withTx("tx-onchain", "contains a transaction that is already on chain", false, "",
		func(w *world, cr Corruption) ([]*transaction.Transaction, string) {
			// Prefer one that is not expired as well (so that this is the only defect).
			var live []*transaction.Transaction
			for _, t := range w.histTxs {
				if t.ValidUntilBlock > w.N && t.ValidUntilBlock <= w.N+w.maxInc {
					live = append(live, t)
				}
			}
			if len(live) > 0 {
				return []*transaction.Transaction{live[mod(cr.I, len(live))]}, ""
			}
			return []*transaction.Transaction{w.histTxs[len(w.histTxs)-1-mod(cr.I, len(w.histTxs))]}, ""
		})
	withTx("tx-conflict-first", "T names V in its Conflicts attribute (same signer), V follows T in the block", false, "",
		func(w *world, cr Corruption) ([]*transaction.Transaction, string) {
			if !w.validAloneAtN(w.cV) || !w.validAloneAtN(w.cThigh) {
				return nil, "crafting account cannot pay"
			}
			return []*transaction.Transaction{w.cThigh, w.cV}, ""
		})
	withTx("tx-conflict-after-low", "V, then T naming V (same signer) with a lower network fee", false, "",
		func(w *world, cr Corruption) ([]*transaction.Transaction, string) {
			if !w.validAloneAtN(w.cV) || !w.validAloneAtN(w.cTlow) {
				return nil, "crafting account cannot pay"
			}
			return []*transaction.Transaction{w.cV, w.cTlow}, ""
		})
	withTx("tx-conflict-after-high", "V, then T naming V (same signer) with a higher network fee: still two incompatible transactions in one block", false,
		"inblock-conflict-evicts-earlier-tx",
		func(w *world, cr Corruption) ([]*transaction.Transaction, string) {
			if !w.validAloneAtN(w.cV) || !w.validAloneAtN(w.cThigh) {
				return nil, "crafting account cannot pay"
			}
			return []*transaction.Transaction{w.cV, w.cThigh}, ""
		})
	withTx("tx-conflict-after-other", "V, then T by somebody else naming V", false, "",
		func(w *world, cr Corruption) ([]*transaction.Transaction, string) {
			if !w.validAloneAtN(w.cV) {
				return nil, "crafting account cannot pay"
			}
			return []*transaction.Transaction{w.cV, w.cTother}, ""
		})
	for t, kind := range ocKinds {
		t, kind := t, kind
		why := [...]string{
			"contains A although an on-chain transaction names A in a Conflicts attribute and shares A's sender as a signer",
			"as above, the common signer is A's SECOND signer",
			"as above, the common signer is A's THIRD signer",
			"control: an on-chain transaction names A in a Conflicts attribute but has no signer in common with A",
		}[t] + " (position of the common signer on chain, number of Conflicts attributes 1..3 and which one names A are drawn)"
		tx(kind, why, true, func(w *world, cr Corruption) mutant {
			oc := w.oc[kind]
			if oc == nil {
				return mutant{skip: "no setup block / on-chain transaction not admitted"}
			}
			if !oc.sibOK {
				return mutant{skip: "crafting accounts cannot pay"}
			}
			nb := txMut(w, func(txs []*transaction.Transaction) []*transaction.Transaction {
				return insertAt(txs, cr.J, cloneTx(oc.A))
			})
			m := mutant{raw: encBlock(nb), expB: vReject, expH: vAccept, hdrValid: true, labels: append([]string{"class-onchain-conflicts"}, oc.labels...)}
			if t == 3 {
				// No common signer: A is as good as any other transaction. Its sender must be able to pay for it next
				// to whatever B spends for the same sender (no action of the grammar costs more than about 1000 GAS).
				m.expB = vEither
				if w.balOf[oc.A.Sender()] > 8000_0000_0000 {
					m.expB = vAccept
				}
			}
			return m
		})
	}
	withTx("tx-conflict-onchain-rev", "contains T whose Conflicts attribute names a transaction that is already on chain", false, "",
		func(w *world, cr Corruption) ([]*transaction.Transaction, string) {
			return []*transaction.Transaction{w.onchainRev}, ""
		})
	withTx("tx-overspend", "two transactions of one sender, each affordable, together above its balance", false, "",
		func(w *world, cr Corruption) ([]*transaction.Transaction, string) {
			if w.balP < 10 {
				return nil, "crafting account is empty"
			}
			return []*transaction.Transaction{w.over1, w.over2}, ""
		})
	tx("tx-sysfee-over-blocklimit", "one affordable transaction whose system fee exceeds MaxBlockSystemFee (a consensus/mempool policy, not among the listed conditions): no verdict", false,
		func(w *world, cr Corruption) mutant {
			if w.overLimit == nil {
				return mutant{skip: "crafting account cannot afford it"}
			}
			nb := txMut(w, func(t []*transaction.Transaction) []*transaction.Transaction {
				return insertAt(t, cr.J, cloneTx(w.overLimit))
			})
			return mutant{raw: encBlock(nb), expB: vEither, expH: vAccept, hdrValid: true}
		})
	withTx("tx-underfunded", "a transaction whose fees exceed the sender's balance", false, "",
		func(w *world, cr Corruption) ([]*transaction.Transaction, string) {
			return []*transaction.Transaction{w.under}, ""
		})
	// ------------------------------------------------------------------ encoding
	encE := func(name, why string, txKind bool, f func(w *world, cr Corruption) ([]byte, string)) {
		reg(&entry{name: name, why: why, txKind: txKind, mk: func(w *world, cr Corruption) mutant {
			raw, skip := f(w, cr)
			if skip != "" {
				return mutant{skip: skip}
			}
			// The verdict depends on what the peer's decoder makes of it (decided in the check): undecodable
			// = rejected at the wire; decodes to B's content = it IS the valid block; anything else = no verdict
			// unless stated here.
			return mutant{raw: raw, expB: vEither, expH: vEither, hdrValid: true}
		}})
	}
	encE("enc-truncated", "bytes cut off the end", false, func(w *world, cr Corruption) ([]byte, string) {
		n := 1 + int(cr.X)%min(len(w.Braw)-1, 200)
		return append([]byte{}, w.Braw[:len(w.Braw)-n]...), ""
	})
	encE("enc-trailing", "bytes appended after the block (decoders read a block and stop)", false, func(w *world, cr Corruption) ([]byte, string) {
		return append(append([]byte{}, w.Braw...), bytes.Repeat([]byte{byte(cr.X)}, 1+int(cr.X>>8)%40)...), ""
	})
	encE("enc-nonmin-txcount", "transaction count as a 3- or 5-byte varint", false, func(w *world, cr Corruption) ([]byte, string) {
		at := len(encHeader(&w.B.Header))
		n := byte(len(w.B.Transactions))
		if cr.X%2 == 0 {
			return splice(w.Braw, at, 1, 0xfd, n, 0), ""
		}
		return splice(w.Braw, at, 1, 0xfe, n, 0, 0, 0), ""
	})
	encE("enc-nonmin-witcount", "witness count 1 as a 3-byte varint", false, func(w *world, cr Corruption) ([]byte, string) {
		return splice(w.Braw, hashableLen(w.srih), 1, 0xfd, 1, 0), ""
	})
	encE("enc-nonmin-invlen", "length of the invocation script as a wider varint", false, func(w *world, cr Corruption) ([]byte, string) {
		at := hashableLen(w.srih) + 1
		l := len(w.B.Script.InvocationScript)
		if l >= 0xfd {
			return splice(w.Braw, at, 3, 0xfe, byte(l), byte(l>>8), 0, 0), ""
		}
		return splice(w.Braw, at, 1, 0xfd, byte(l), 0), ""
	})
	encE("enc-nonmin-tx", "signer count of the first transaction as a 3-byte varint", true, func(w *world, cr Corruption) ([]byte, string) {
		if len(w.B.Transactions) == 0 {
			return nil, "no transactions"
		}
		at := len(encHeader(&w.B.Header)) + 1 + 25
		return splice(w.Braw, at, 1, 0xfd, w.Braw[at], 0), ""
	})
	encE("enc-witcount-bad", "witness count 0 or 2", false, func(w *world, cr Corruption) ([]byte, string) {
		return splice(w.Braw, hashableLen(w.srih), 1, byte(cr.X%2)*2), ""
	})
	encE("enc-txcount-plus", "transaction count larger than the list", false, func(w *world, cr Corruption) ([]byte, string) {
		at := len(encHeader(&w.B.Header))
		if cr.X%3 == 0 {
			return splice(w.Braw, at, 1, 0xfe, 0, 0, 1, 0), "" // 65536 > MaxTransactionsPerBlock
		}
		return splice(w.Braw, at, 1, byte(len(w.B.Transactions)+1+int(cr.X)%3)), ""
	})
	reg(&entry{name: "enc-txcount-minus", txKind: true, why: "transaction count one less than the list: reads as B without its last transaction plus trailing bytes: Merkle root mismatch",
		mk: func(w *world, cr Corruption) mutant {
			if len(w.B.Transactions) == 0 {
				return mutant{skip: "no transactions"}
			}
			at := len(encHeader(&w.B.Header))
			return mutant{raw: splice(w.Braw, at, 1, byte(len(w.B.Transactions)-1)), expB: vReject, expH: vAccept, hdrValid: true}
		}})
}

// validAloneAtN: crafted txs were checked at N when the world was built (the builder has moved on since).
func (w *world) validAloneAtN(tx *transaction.Transaction) bool { return w.okAtN[tx.Hash()] }

func init() {
	for _, k := range ocKinds {
		byKind[k].weight = 2
	}
}
