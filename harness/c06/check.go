package c06

import (
	"bytes"
	"crypto/sha256"
	"encoding/hex"
	"fmt"
	"sort"
	"strings"

	"github.com/nspcc-dev/neo-go/pkg/core/block"
	"github.com/nspcc-dev/neo-go/pkg/core/storage"
	"github.com/nspcc-dev/neo-go/pkg/core/transaction"
	"github.com/nspcc-dev/neo-go/pkg/crypto/hash"
	"github.com/nspcc-dev/neo-go/pkg/smartcontract"
	"github.com/nspcc-dev/neo-go/pkg/util"
	ck "verifharness/chainkit"
	"verifharness/vt"
)

// ---- observation ---------------------------------------------------------------------------------

type snap struct {
	bh, hh       uint32
	bhash, hhash util.Uint256
	next         util.Uint256 // header hash known for height bh+1 (zero: none)
	dump         ck.Dump
	mem          []string // mempool content in order: tx hash + digest of the full encoding (witnesses included)
}

func memOf(n *ck.Node) []string {
	var out []string
	for _, tx := range n.BC.GetMemPool().GetVerifiedTransactions() {
		d := sha256.Sum256(encTx(tx))
		out = append(out, tx.Hash().StringLE()[:16]+":"+hex.EncodeToString(d[:6]))
	}
	return out
}

func takeSnap(n *ck.Node) snap {
	bc := n.BC
	s := snap{bh: bc.BlockHeight(), hh: bc.HeaderHeight(), bhash: bc.CurrentBlockHash(), hhash: bc.CurrentHeaderHash()}
	s.next = bc.GetHeaderHash(s.bh + 1)
	s.dump = ck.FullDump(bc, nil)
	s.mem = memOf(n)
	return s
}

// diff compares a later snapshot with s. allowHdr (optional) is the one header that may have been recorded on top
// of s's header chain. It returns a description of the first difference and whether that header was recorded.
func (s snap) diff(a snap, allowHdr *util.Uint256) (string, bool) {
	if a.bh != s.bh || a.bhash != s.bhash {
		return fmt.Sprintf("block height/tip changed: %d %s -> %d %s", s.bh, s.bhash.StringLE(), a.bh, a.bhash.StringLE()), false
	}
	recorded := false
	if a.hh != s.hh || a.hhash != s.hhash || a.next != s.next {
		if allowHdr != nil && s.hh == s.bh && a.hh == s.hh+1 && a.hhash == *allowHdr && a.next == *allowHdr {
			recorded = true
		} else {
			return fmt.Sprintf("header chain changed: height %d tip %s next %s -> height %d tip %s next %s (a recorded header %s)", s.hh, s.hhash.StringLE(), s.next.StringLE(),
				a.hh, a.hhash.StringLE(), a.next.StringLE(), map[bool]string{true: "would be allowed only as exactly the submitted one on top of the block tip", false: "is not allowed here"}[allowHdr != nil]), false
		}
	}
	if d := ck.Diff(s.dump, a.dump); d != "" {
		return "ledger state changed: " + d, recorded
	}
	if strings.Join(s.mem, ",") != strings.Join(a.mem, ",") {
		return fmt.Sprintf("mempool changed: %v -> %v", s.mem, a.mem), recorded
	}
	return "", recorded
}

// diffRaw compares two backend dumps; keys in allow may differ.
func diffRaw(a, b map[string]string, allow map[string]bool) string {
	var keys []string
	for k := range a {
		keys = append(keys, k)
	}
	for k := range b {
		if _, ok := a[k]; !ok {
			keys = append(keys, k)
		}
	}
	sort.Strings(keys)
	var out []string
	for _, k := range keys {
		if allow[k] {
			continue
		}
		va, oka := a[k]
		vb, okb := b[k]
		if oka && okb && va == vb {
			continue
		}
		clip := func(s string) string {
			if len(s) > 80 {
				return s[:80] + "..."
			}
			return s
		}
		switch {
		case !oka:
			out = append(out, fmt.Sprintf("%s: <absent> vs %s", clip(k), clip(vb)))
		case !okb:
			out = append(out, fmt.Sprintf("%s: %s vs <absent>", clip(k), clip(va)))
		default:
			out = append(out, fmt.Sprintf("%s: %s vs %s", clip(k), clip(va), clip(vb)))
		}
		if len(out) >= 5 {
			out = append(out, "...")
			break
		}
	}
	return strings.Join(out, "; ")
}

func hdrKeys(h util.Uint256) map[string]bool {
	return map[string]bool{"01" + hex.EncodeToString(h.BytesBE()): true, "c1": true}
}

// rawPrefixes are all key prefixes the node writes under (storage.KeyPrefix constants). MemoryStore.Seek walks the
// whole map per call, so the dump asks for these instead of all 256 first bytes (ck.RawDump).
var rawPrefixes = []storage.KeyPrefix{storage.DataExecutable, storage.DataMPT, storage.DataMPTAux, storage.STStorage, storage.STTempStorage,
	storage.STNEP11Transfers, storage.STNEP17Transfers, storage.STTokenTransferInfo, storage.IXHeaderHashList, storage.SYSCurrentBlock,
	storage.SYSCurrentHeader, storage.SYSStateSyncCurrentBlockHeight, storage.SYSStateSyncPoint, storage.SYSStateChangeStage,
	storage.SYSStateSyncCheckpoint, storage.SYSVersion}

func rawDump(st storage.Store) map[string]string {
	m := map[string]string{}
	for _, p := range rawPrefixes {
		st.Seek(storage.SeekRange{Prefix: []byte{byte(p)}}, func(k, v []byte) bool {
			m[hex.EncodeToString(k)] = hex.EncodeToString(v)
			return true
		})
	}
	return m
}

func flushRaw(n *ck.Node) (map[string]string, error) {
	if err := n.BC.VerifPersist(); err != nil {
		return nil, err
	}
	m := rawDump(n.Base())
	// STTokenTransferInfo records (node-local bookkeeping, prefix 0x74) serialise a Go map in iteration order:
	// compare their content, not the order (26 fixed bytes, a count < 0xfd, then 8-byte entries).
	for k, v := range m {
		if strings.HasPrefix(k, "74") && len(v) >= 54 && (len(v)-54)%16 == 0 {
			var ent []string
			for i := 54; i < len(v); i += 16 {
				ent = append(ent, v[i:i+16])
			}
			sort.Strings(ent)
			m[k] = v[:54] + strings.Join(ent, "")
		}
	}
	return m, nil
}

// ---- nodes ------------------------------------------------------------------------------------------

// startNode brings a fresh node to the state the submission happens on.
func (w *world) startNode(ha int, withPool bool) (*ck.Node, error) {
	var n *ck.Node
	skip := 0
	if w.c.Fresh {
		var err error
		if n, err = ck.NewNode(w.c.Chain, w.c.Node, nil); err != nil {
			return nil, fmt.Errorf("cannot start node: %v", err)
		}
	} else {
		s, err := bootSnapshot(w.c.Chain, w.c.Node)
		if err != nil {
			return nil, err
		}
		if n, err = ck.NewNodeOnStore(w.c.Chain, w.c.Node, s.clone()); err != nil {
			return nil, fmt.Errorf("cannot start node on the post-bootstrap backend: %v", err)
		}
		skip = len(s.boot)
		if n.BC.BlockHeight() != uint32(skip) {
			n.Close()
			return nil, fmt.Errorf("harness: node on the post-bootstrap backend is at height %d", n.BC.BlockHeight())
		}
	}
	fail := func(err error) (*ck.Node, error) { n.Close(); return nil, err }
	for i, raw := range w.hist {
		if i < skip {
			continue
		}
		blk, err := ck.DecodeBlock(raw, w.srih)
		if err != nil {
			return fail(fmt.Errorf("history block %d does not decode: %v", i+1, err))
		}
		if err := n.BC.AddBlock(blk); err != nil {
			return fail(fmt.Errorf("node rejects history block %d accepted by the builder: %v", i+1, err))
		}
	}
	if withPool {
		for i, tx := range w.B.Transactions {
			if w.c.PoolMask&(1<<i) != 0 {
				_ = n.BC.PoolTx(cloneTx(tx))
			}
		}
		for _, raw := range w.pool {
			if tx, err := transaction.NewTransactionFromBytes(raw); err == nil {
				_ = n.BC.PoolTx(tx)
			}
		}
	}
	for i, h := range []*block.Header{&w.B.Header, &w.B2.Header} {
		if i >= ha {
			break
		}
		hh, err := decHeader(encHeader(h), w.srih)
		if err != nil {
			return fail(err)
		}
		if err := n.BC.AddHeaders(hh); err != nil {
			return fail(fmt.Errorf("valid header %d refused: %v", h.Index, err))
		}
		if n.BC.HeaderHeight() != h.Index {
			return fail(fmt.Errorf("valid header %d not recorded (header height %d)", h.Index, n.BC.HeaderHeight()))
		}
	}
	if w.c.PersistBefore {
		if err := n.BC.VerifPersist(); err != nil {
			return fail(err)
		}
	}
	return n, nil
}

// twinSnap is what a node that never sees the corrupted block looks like at the comparison points.
type twinSnap struct {
	memN   []string
	rawN   map[string]string
	dumpB  ck.Dump
	memB   []string
	rawB   map[string]string
	dumpB2 ck.Dump
	memB2  []string
	rawB2  map[string]string
}

func (w *world) twin(ha int) (*twinSnap, error) {
	if t := w.twins[ha]; t != nil {
		return t, nil
	}
	n, err := w.startNode(ha, true)
	if err != nil {
		return nil, fmt.Errorf("twin: %v", err)
	}
	defer n.Close()
	t := &twinSnap{memN: memOf(n)}
	if t.rawN, err = flushRaw(n); err != nil {
		return nil, err
	}
	add := func(raw []byte) error {
		blk, err := ck.DecodeBlock(raw, w.srih)
		if err != nil {
			return err
		}
		return n.BC.AddBlock(blk)
	}
	if err := add(w.Braw); err != nil {
		return nil, fmt.Errorf("twin rejects the valid next block: %v", err)
	}
	t.dumpB, t.memB = ck.FullDump(n.BC, nil), memOf(n)
	if t.rawB, err = flushRaw(n); err != nil {
		return nil, err
	}
	if err := add(w.B2raw); err != nil {
		return nil, fmt.Errorf("twin rejects the valid block after next: %v", err)
	}
	t.dumpB2, t.memB2 = ck.FullDump(n.BC, nil), memOf(n)
	if t.rawB2, err = flushRaw(n); err != nil {
		return nil, err
	}
	w.twins[ha] = t
	return t, nil
}

// ---- the check -----------------------------------------------------------------------------------------

func known(key string) bool { return key != "" && vt.Known(key) }

var reconfirmed = map[string]bool{}

// reconfirm prints the KNOWN-FINDING line once per process and key.
func reconfirm(key, what string) {
	if !reconfirmed[key] {
		reconfirmed[key] = true
		vt.KnownFinding(key, what)
	}
}

func checkCase(c Case, o *vt.Obs) error {
	w, err := buildWorld(c)
	if err != nil {
		return err
	}
	defer w.close()
	o.Labelf("profile-%s", c.Chain.Profile)
	if c.Node.NoVerifyTx {
		o.Label("node-does-not-verify-block-transactions")
	}
	if c.Corr.Kind != "*" {
		e := byKind[c.Corr.Kind]
		if e == nil {
			return fmt.Errorf("unknown corruption kind %q", c.Corr.Kind)
		}
		if e.srihOnly && !w.srih {
			o.Label("skip/" + e.name)
			return nil
		}
		return w.runOne(e, c.Corr, c.Via, c.HeadersAhead, o)
	}
	for _, e := range catalogue {
		if e.srihOnly && !w.srih {
			continue
		}
		if err := w.runOne(e, c.Corr, "block", c.HeadersAhead, o); err != nil {
			return fmt.Errorf("[%s via block] %w", e.name, err)
		}
		if e.special != nil { // both depths of the refused block
			cr := c.Corr
			cr.X ^= 1 << 8
			if err := w.runOne(e, cr, "block", c.HeadersAhead, o); err != nil {
				return fmt.Errorf("[%s via block, other depth] %w", e.name, err)
			}
		}
		if !e.blockOnly {
			if err := w.runOne(e, c.Corr, "headers", 0, o); err != nil {
				return fmt.Errorf("[%s via headers] %w", e.name, err)
			}
		}
		o.Units(1)
	}
	return nil
}

func (w *world) runOne(e *entry, cr Corruption, via string, ha int, o *vt.Obs) error {
	if e.special != nil {
		return e.special(w, cr, o)
	}
	m := e.mk(w, cr)
	if m.skip != "" {
		o.Label("skip/" + e.name)
		return nil
	}
	for _, l := range m.labels {
		o.Label(l)
	}
	if via == "headers" {
		ha = 0
	}
	tw, err := w.twin(ha)
	if err != nil {
		return err
	}
	n, err := w.startNode(ha, true)
	if err != nil {
		return err
	}
	defer n.Close()
	before := takeSnap(n)
	if before.bh != w.N {
		return fmt.Errorf("harness: node at height %d, expected %d", before.bh, w.N)
	}
	if strings.Join(before.mem, ",") != strings.Join(tw.memN, ",") {
		return fmt.Errorf("harness: node and twin mempools differ before the submission: %v vs %v", before.mem, tw.memN)
	}
	where := fmt.Sprintf("%s (%s) via %s at height %d, %d headers ahead, %d pooled txs", e.name, e.why, via, w.N, ha, len(before.mem))

	// What does a peer's decoder make of the bytes?
	var blk *block.Block
	expB, expH := m.expB, m.expH
	hdrValid := m.hdrValid
	isB, sameState := false, false
	if m.api != nil {
		blk = m.api
	} else {
		var derr error
		blk, derr = ck.DecodeBlock(m.raw, w.srih)
		if derr != nil {
			if expB == vAccept {
				return fmt.Errorf("%s: the bytes of a valid block do not decode: %v", where, derr)
			}
			o.Labelf("%s/wire-rejected", e.name)
			// Nothing was submitted; the correct block must of course still work.
			return w.thenCorrect(n, before, tw, nil, where+": undecodable", e.name, o)
		}
		isB = bytes.Equal(encBlock(blk), w.Braw)
		if blk.Hash() == w.B.Hash() && len(blk.Transactions) == len(w.B.Transactions) {
			sameState = true
			for i := range blk.Transactions {
				if blk.Transactions[i].Hash() != w.B.Transactions[i].Hash() {
					sameState = false
				}
			}
		}
		if isB { // it IS the valid block
			expB, expH, hdrValid = vAccept, vAccept, true
		}
	}
	if ha > 0 && blk.Hash() != w.B.Hash() && expB == vAccept {
		expB = vEither // competes with a header the node already trusts: the text does not say
	}
	if ha > 0 && via == "block" && m.known == "" && strings.HasPrefix(e.name, "wit-") && expB == vReject {
		// B's header is already on record (verified when it arrived): AddBlock then compares hashes only,
		// and the witness is not covered by the hash.
		m.known = "block-witness-not-verified-when-header-known"
	}
	if known(m.known) {
		expB = vEither
		o.Excluded()
	}
	mh := blk.Hash()

	if via == "headers" {
		h, err := decHeader(encHeader(&blk.Header), w.srih)
		if err != nil {
			return fmt.Errorf("harness: header of the decoded block does not decode: %v", err)
		}
		herr := n.BC.AddHeaders(h)
		added := n.BC.HeaderHeight() == before.hh+1 && n.BC.GetHeaderHash(w.N+1) == h.Hash()
		switch {
		case added && herr != nil:
			return fmt.Errorf("%s: AddHeaders returned an error (%v) but recorded the header", where, herr)
		case added && expH == vReject:
			return fmt.Errorf("%s: AddHeaders accepted a header the property rejects", where)
		case !added && expH == vAccept:
			return fmt.Errorf("%s: AddHeaders did not record a valid next header (err=%v)", where, herr)
		}
		after := takeSnap(n)
		var allow *util.Uint256
		if added {
			allow = &mh
			o.Labelf("%s/hdr-accepted", e.name)
		} else if herr == nil {
			o.Labelf("%s/hdr-ignored", e.name)
		} else {
			o.Labelf("%s/hdr-rejected", e.name)
		}
		d, rec := before.diff(after, allow)
		if d != "" {
			return fmt.Errorf("%s: after AddHeaders (added=%v err=%v): %s", where, added, herr, d)
		}
		if rec != added {
			return fmt.Errorf("%s: AddHeaders added=%v but header chain recorded=%v", where, added, rec)
		}
		if !added && len(before.mem) > 0 {
			o.NonTrivial()
		}
		var recH *util.Uint256
		if added {
			recH = &mh
		}
		return w.thenCorrect(n, before, tw, recH, where, e.name, o)
	}

	aerr := n.BC.AddBlock(blk)
	if aerr != nil {
		if expB == vAccept {
			return fmt.Errorf("%s: a valid block was refused: %v", where, aerr)
		}
		o.Labelf("%s/rejected", e.name)
		after := takeSnap(n)
		var allow *util.Uint256
		if hdrValid {
			allow = &mh
		}
		d, rec := before.diff(after, allow)
		if d != "" {
			return fmt.Errorf("%s: rejected (%v) but %s", where, aerr, d)
		}
		if len(before.mem) > 0 {
			o.NonTrivial()
		}
		var recH *util.Uint256
		if rec {
			recH = &mh
			o.Labelf("%s/header-recorded", e.name)
		}
		return w.thenCorrect(n, before, tw, recH, fmt.Sprintf("%s: rejected (%v)", where, firstLine(aerr.Error())), e.name, o)
	}
	// ---- accepted ----
	if n.BC.BlockHeight() != w.N+1 || n.BC.CurrentBlockHash() != mh {
		return fmt.Errorf("%s: AddBlock returned nil but the tip is %d %s", where, n.BC.BlockHeight(), n.BC.CurrentBlockHash().StringLE())
	}
	if expB == vReject {
		return fmt.Errorf("%s: ACCEPTED a block the property rejects", where)
	}
	if known(m.known) {
		reconfirm(m.known, "reconfirmed: "+e.name+" accepted")
	}
	o.Labelf("%s/accepted", e.name)
	if n.BC.HeaderHeight() < w.N+1 || n.BC.GetHeaderHash(w.N+1) != mh {
		return fmt.Errorf("%s: accepted but the header chain does not carry it", where)
	}
	where += ": accepted"
	if sameState {
		// Same header, same transactions: the state must be the one of B.
		if d := ck.Diff(tw.dumpB, ck.FullDump(n.BC, nil)); d != "" {
			return fmt.Errorf("%s, state differs from the twin that got B: %s", where, d)
		}
		if got := memOf(n); strings.Join(got, ",") != strings.Join(tw.memB, ",") {
			return fmt.Errorf("%s, mempool differs from the twin that got B: %v vs %v", where, got, tw.memB)
		}
		raw, err := flushRaw(n)
		if err != nil {
			return err
		}
		if isB {
			if d := diffRaw(raw, tw.rawB, nil); d != "" {
				return fmt.Errorf("%s, backend differs from the twin that got B: %s", where, d)
			}
		}
		return w.addValid(n, w.B2raw, tw.dumpB2, tw.memB2, where+", then B2")
	}
	return w.afterAcceptance(n, blk, m, ha, where, o)
}

func firstLine(s string) string {
	if i := strings.IndexByte(s, '\n'); i >= 0 {
		return s[:i]
	}
	return s
}

// addValid submits a valid block (bytes) and compares the result with the expected dump / mempool.
func (w *world) addValid(n *ck.Node, raw []byte, want ck.Dump, wantMem []string, where string) error {
	blk, err := ck.DecodeBlock(raw, w.srih)
	if err != nil {
		return err
	}
	if err := n.BC.AddBlock(blk); err != nil {
		return fmt.Errorf("%s: the correct block %d is refused: %v", where, blk.Index, err)
	}
	if d := ck.Diff(want, ck.FullDump(n.BC, nil)); d != "" {
		return fmt.Errorf("%s: state after the correct block %d differs from the twin: %s", where, blk.Index, d)
	}
	if wantMem != nil {
		if got := memOf(n); strings.Join(got, ",") != strings.Join(wantMem, ",") {
			return fmt.Errorf("%s: mempool after the correct block %d differs from the twin: %v vs %v", where, blk.Index, got, wantMem)
		}
	}
	return nil
}

// thenCorrect: after a rejection (recorded = the header that was legitimately recorded, if any): flush and compare
// the backend with the twin, then submit the correct block B and B2.
func (w *world) thenCorrect(n *ck.Node, before snap, tw *twinSnap, recorded *util.Uint256, where, kind string, o *vt.Obs) error {
	raw, err := flushRaw(n)
	if err != nil {
		return err
	}
	var allow map[string]bool
	if recorded != nil {
		allow = hdrKeys(*recorded)
		if _, ok := raw["01"+hex.EncodeToString(recorded.BytesBE())]; !ok {
			return fmt.Errorf("%s: header recorded in memory but not in the backend", where)
		}
	}
	if d := diffRaw(raw, tw.rawN, allow); d != "" {
		return fmt.Errorf("%s: backend after a flush differs from the twin that never saw the block: %s", where, d)
	}
	if recorded != nil && *recorded != w.B.Hash() {
		// A validly signed and linked header of ANOTHER block at this height is on record: the property allows
		// that record; B does not fit it. No verdict for B; whatever happens must again change nothing / be B.
		blk, _ := ck.DecodeBlock(w.Braw, w.srih)
		mid := takeSnap(n)
		if err := n.BC.AddBlock(blk); err != nil {
			o.Labelf("%s/stuck-on-recorded-header", kind)
			if d, _ := mid.diff(takeSnap(n), nil); d != "" {
				return fmt.Errorf("%s, then B refused (%v) but %s", where, err, d)
			}
			return nil
		}
		return fmt.Errorf("%s: B (%s) accepted although header %s is on record for its height", where, w.B.Hash().StringLE(), recorded.StringLE())
	}
	if err := w.addValid(n, w.Braw, tw.dumpB, tw.memB, where+", then B"); err != nil {
		return err
	}
	if raw, err = flushRaw(n); err != nil {
		return err
	}
	if d := diffRaw(raw, tw.rawB, nil); d != "" {
		return fmt.Errorf("%s, then B: backend after a flush differs from the twin: %s", where, d)
	}
	if err := w.addValid(n, w.B2raw, tw.dumpB2, tw.memB2, where+", then B, B2"); err != nil {
		return err
	}
	if raw, err = flushRaw(n); err != nil {
		return err
	}
	if d := diffRaw(raw, tw.rawB2, nil); d != "" {
		return fmt.Errorf("%s, then B, B2: backend after a flush differs from the twin: %s", where, d)
	}
	return nil
}

// afterAcceptance: the node accepted a block that is not B. A fresh replica without mempool must accept it too and
// compute the same state and backend; the chain continues under the consensus address the block designates.
func (w *world) afterAcceptance(n *ck.Node, blk *block.Block, m mutant, ha int, where string, o *vt.Obs) error {
	r, err := w.startNode(ha, false)
	if err != nil {
		return fmt.Errorf("replica: %v", err)
	}
	defer r.Close()
	var cp *block.Block
	if m.api != nil {
		nb := &block.Block{Header: copyHeader(&m.api.Header)}
		for _, tx := range m.api.Transactions {
			nb.Transactions = append(nb.Transactions, cloneTx(tx))
		}
		cp = nb
	} else if cp, err = ck.DecodeBlock(m.raw, w.srih); err != nil {
		return err
	}
	if err := r.BC.AddBlock(cp); err != nil {
		return fmt.Errorf("%s by the node (mempool %v) but refused by a fresh replica with an empty mempool: %v", where, memOf(n), err)
	}
	if d := ck.Diff(ck.FullDump(r.BC, nil), ck.FullDump(n.BC, nil)); d != "" {
		return fmt.Errorf("%s, state differs from a fresh replica given the same block: %s", where, d)
	}
	rawN, err := flushRaw(n)
	if err != nil {
		return err
	}
	rawR, err := flushRaw(r)
	if err != nil {
		return err
	}
	if d := diffRaw(rawN, rawR, nil); d != "" {
		return fmt.Errorf("%s, backend differs from a fresh replica given the same block: %s", where, d)
	}
	if ha >= 2 {
		return nil // the next header on record belongs to B2, which does not extend this block
	}
	// Continuation built on the replica.
	rb := &ck.Builder{N: r, Deployed: w.b.Deployed, TxHashes: append([]util.Uint256{}, w.txHashN...), Rejected: map[string]int{}}
	next := func(signer ck.Actor) (*block.Block, error) {
		bc := r.BC
		prev, err := bc.GetHeader(bc.CurrentBlockHash())
		if err != nil {
			return nil, err
		}
		ns, err := smartcontract.CreateDefaultMultiSigRedeemScript(bc.ComputeNextBlockValidators())
		if err != nil {
			return nil, err
		}
		nb := &block.Block{Header: block.Header{
			PrevHash: prev.Hash(), Timestamp: prev.Timestamp + 1000, Nonce: 6, Index: prev.Index + 1,
			NextConsensus: hash.Hash160(ns),
		}}
		if w.srih {
			nb.StateRootEnabled = true
			nb.PrevStateRoot = bc.GetStateModule().CurrentLocalStateRoot()
		}
		nb.RebuildMerkleRoot()
		sign(nb, signer)
		return nb, nil
	}
	switch m.cont {
	case "":
		raw, _, err := rb.BuildBlock(w.c.After)
		if err != nil {
			return fmt.Errorf("%s, continuation cannot be built on the replica: %v", where, err)
		}
		return w.addValid(n, raw, ck.FullDump(r.BC, nil), nil, where+", continuation")
	case "acct", "none":
		vals, err := rb.ValidatorsActor()
		if err != nil {
			return err
		}
		bad, err := next(vals)
		if err != nil {
			return err
		}
		mid := takeSnap(n)
		dec, _ := ck.DecodeBlock(encBlock(bad), w.srih)
		if err := n.BC.AddBlock(dec); err == nil {
			return fmt.Errorf("%s, then a block signed by the validators although the accepted block designates %s as next consensus was ACCEPTED", where, blk.NextConsensus.StringLE())
		}
		if d, _ := mid.diff(takeSnap(n), nil); d != "" {
			return fmt.Errorf("%s, then a block not signed by the designated consensus address was refused but %s", where, d)
		}
		o.Label("continuation-by-validators-refused")
		if m.cont == "none" {
			return nil
		}
		good, err := next(ck.Single(ck.Accounts[0]))
		if err != nil {
			return err
		}
		raw := encBlock(good)
		dr, _ := ck.DecodeBlock(raw, w.srih)
		if err := r.BC.AddBlock(dr); err != nil {
			return fmt.Errorf("%s, replica refuses the continuation signed by the designated address: %v", where, err)
		}
		return w.addValid(n, raw, ck.FullDump(r.BC, nil), nil, where+", continuation signed by the designated address")
	}
	return nil
}
