package c06

import (
	"os"
	"testing"

	"github.com/nspcc-dev/neo-go/pkg/core/block"
	"github.com/nspcc-dev/neo-go/pkg/core/state"
	"github.com/nspcc-dev/neo-go/pkg/core/transaction"
	"github.com/nspcc-dev/neo-go/pkg/util"
	ck "verifharness/chainkit"
)

// Standalone reproductions (no rapid) of the four defects found by the check (repaired by c25ef5e, b3c0ebd, 67db97f,
// 6799485; the same shapes are kept as replay cases in /verif/replays/C06/regress). Each test FAILS while its defect
// is present. Run: VERIF_C06_REPRO=1 go test -tags verif -run 'TestRepro' -v ./c06/

func reproWorld(t *testing.T, srih bool) *world {
	if os.Getenv("VERIF_C06_REPRO") == "" {
		t.Skip("set VERIF_C06_REPRO=1 to run the standalone reproductions")
	}
	c := Case{
		Chain: ck.ChainCfg{Profile: "V1C1", SRIH: srih},
		Node:  ck.NodeCfg{Backend: "mem"},
		Next: ck.BlockSpec{TimeD: 1000, Txs: []ck.Action{
			{Kind: "gas_transfer", From: 2, A: 3, N: 5, Nonce: 1, Scope: 1},
			// The standby validators' address has a long transfer-log record (it funded everybody in block 1).
			{Kind: "gas_transfer", From: ck.PValidators, A: 3, N: 7, Nonce: 2},
		}},
		After: ck.BlockSpec{TimeD: 1000},
		Fresh: true,
	}
	w, err := buildWorld(c)
	if err != nil {
		t.Fatal(err)
	}
	t.Cleanup(w.close)
	return w
}

// [V, T]: T has Conflicts(V), the same signer and a higher network fee. Verification in AddBlock uses a scratch
// mempool; adding T evicts V from it and succeeds, so both are executed; T's conflict stub then replaces V's record.
func TestReproInBlockConflictEviction(t *testing.T) {
	w := reproWorld(t, false)
	n, err := w.startNode(0, false)
	if err != nil {
		t.Fatal(err)
	}
	defer n.Close()
	nb := txMut(w, func(txs []*transaction.Transaction) []*transaction.Transaction {
		return append(txs, cloneTx(w.cV), cloneTx(w.cThigh))
	})
	blk, err := ck.DecodeBlock(encBlock(nb), w.srih)
	if err != nil {
		t.Fatal(err)
	}
	t.Logf("V=%s netfee=%d; T=%s netfee=%d Conflicts(V), same sender", w.cV.Hash().StringLE(), w.cV.NetworkFee, w.cThigh.Hash().StringLE(), w.cThigh.NetworkFee)
	err = n.BC.AddBlock(blk)
	if err != nil {
		t.Logf("rejected as it should be: %v", err)
		return
	}
	t.Errorf("block %d with the conflicting pair [V, T] was ACCEPTED", blk.Index)
	if _, _, err := n.BC.GetTransaction(w.cV.Hash()); err != nil {
		t.Errorf("and V, which was executed and charged, can no longer be retrieved: %v", err)
	}
	if aer, err := n.BC.GetAppExecResults(w.cV.Hash(), 0x40); err != nil || len(aer) == 0 {
		t.Errorf("and V's application log is gone: %v", err)
	}
}

// A copy of the valid block B whose first transaction carries a broken signature (hashes, Merkle root, header and
// the validators' signature are untouched) is accepted by a node that has the transaction in its mempool.
func TestReproPooledTxWitnessNotVerified(t *testing.T) {
	w := reproWorld(t, false)
	nb := w.freshB()
	nb.Transactions[0] = remakeTx(nb.Transactions[0], func(x *transaction.Transaction) { x.Scripts[0].InvocationScript[10] ^= 1 })
	raw := encBlock(nb)
	for _, pooled := range []bool{false, true} {
		n, err := w.startNode(0, false)
		if err != nil {
			t.Fatal(err)
		}
		if pooled {
			if err := n.BC.PoolTx(cloneTx(w.B.Transactions[0])); err != nil {
				t.Fatal(err)
			}
		}
		blk, _ := ck.DecodeBlock(raw, w.srih)
		err = n.BC.AddBlock(blk)
		t.Logf("tx pooled on the node: %v -> AddBlock: %v", pooled, err)
		if err == nil {
			t.Errorf("block whose transaction %s has an invalid signature was ACCEPTED (pooled=%v)", blk.Transactions[0].Hash().StringLE(), pooled)
			tx, _, _ := n.BC.GetTransaction(blk.Transactions[0].Hash())
			if tx != nil {
				_, verr := n.BC.VerifyWitness(tx.Signers[0].Account, tx, &tx.Scripts[0], 1_0000_0000)
				t.Logf("the stored transaction's witness verifies: %v", verr)
			}
		}
		n.Close()
	}
}

// The node knows header N+1 (validly signed). The block with the same hash but no witness at all is accepted and
// its witness replaces the verified one in the store.
func TestReproBlockWitnessNotVerifiedWhenHeaderKnown(t *testing.T) {
	w := reproWorld(t, false)
	n, err := w.startNode(1, false)
	if err != nil {
		t.Fatal(err)
	}
	defer n.Close()
	nb := w.freshB()
	nb.Script = transaction.Witness{InvocationScript: []byte{}, VerificationScript: []byte{}}
	blk, _ := ck.DecodeBlock(encBlock(nb), w.srih)
	err = n.BC.AddBlock(blk)
	if err != nil {
		t.Logf("rejected as it should be: %v", err)
		return
	}
	t.Errorf("block %d without any witness was ACCEPTED (header was known)", blk.Index)
	var h *block.Header
	if h, err = n.BC.GetHeader(blk.Hash()); err == nil {
		t.Logf("stored header witness: invocation %x verification %x", h.Script.InvocationScript, h.Script.VerificationScript)
	}
}

// State-root-in-header chain; the node trusts header N+1 (B's) and a validator-signed header N+2 with a wrong
// PrevStateRoot. B is executed, then refused (state root mismatch with header N+2). The refusal leaves a trace: the
// entry counter (first byte) of committed NEP-17 transfer-log records of the accounts B touches is incremented in
// place (dao.GetTokenTransferLog hands the stored slice to TokenTransferLog.Append), so the record says one more
// entry than it holds and reading the account's transfers fails.
func TestReproRefusedBlockBumpsTransferLogCounter(t *testing.T) {
	w := reproWorld(t, true)
	n, err := w.startNode(1, false)
	if err != nil {
		t.Fatal(err)
	}
	defer n.Close()
	h2 := &block.Block{Header: copyHeader(&w.B2.Header)}
	h2.PrevStateRoot = flipBit256(h2.PrevStateRoot, 0)
	sign(h2, w.vals2)
	hh, _ := decHeader(encHeader(&h2.Header), true)
	if err := n.BC.AddHeaders(hh); err != nil {
		t.Skipf("second header refused: %v", err)
	}
	before, _ := flushRaw(n)
	blk, _ := ck.DecodeBlock(w.Braw, true)
	err = n.BC.AddBlock(blk)
	if err == nil {
		t.Skip("B accepted")
	}
	t.Logf("B refused: %v", err)
	after, _ := flushRaw(n)
	if d := diffRaw(after, before, nil); d != "" {
		t.Errorf("backend changed by the refused block: %s", d)
	}
	for name, acc := range map[string]util.Uint160{"account 3": ck.Accounts[3].Hash, "standby validators": w.b.PartyHash(ck.PValidators)} {
		cnt := 0
		err := n.BC.ForEachNEP17Transfer(acc, 1<<62, func(*state.NEP17Transfer) (bool, error) { cnt++; return true, nil })
		t.Logf("NEP-17 transfers of %s: %d read, err=%v", name, cnt, err)
		if err != nil {
			t.Errorf("transfer log of %s is unreadable after the refused block: %v", name, err)
		}
	}
}
