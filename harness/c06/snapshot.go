package c06

import (
	"encoding/json"
	"fmt"
	"sync"

	"github.com/nspcc-dev/neo-go/pkg/core/storage"
	"github.com/nspcc-dev/neo-go/pkg/util"
	ck "verifharness/chainkit"
)

// The fixed bootstrap prologue (2 blocks, 20+ multisig transactions) dominates the cost of a case when every
// node replays it. Its result depends on the configuration only, so the flushed backend after the bootstrap is
// kept per configuration and nodes start from a deep copy of it (= a node restarted at height 2) unless the case
// asks for a full replay from genesis (Case.Fresh).

type bootSnap struct {
	puts, stores map[string][]byte
	boot         [][]byte
	deployed     []ck.Deployed
	txHashes     []util.Uint256
}

var (
	snapMu sync.Mutex
	snaps  = map[string]*bootSnap{}
)

func copyStore(st storage.Store) (map[string][]byte, map[string][]byte) {
	puts, stores := map[string][]byte{}, map[string][]byte{}
	for p := 0; p < 256; p++ {
		st.Seek(storage.SeekRange{Prefix: []byte{byte(p)}}, func(k, v []byte) bool {
			m := puts
			if storage.KeyPrefix(p) == storage.STStorage || storage.KeyPrefix(p) == storage.STTempStorage {
				m = stores
			}
			m[string(k)] = append([]byte{}, v...)
			return true
		})
	}
	return puts, stores
}

func (s *bootSnap) clone() storage.Store {
	cp := func(m map[string][]byte) map[string][]byte {
		out := make(map[string][]byte, len(m))
		for k, v := range m {
			out[k] = append([]byte{}, v...)
		}
		return out
	}
	st := storage.NewMemoryStore()
	_ = st.PutChangeSet(cp(s.puts), cp(s.stores))
	return st
}

// bootSnapshot returns the post-bootstrap backend for a configuration (built once per process).
func bootSnapshot(chain ck.ChainCfg, node ck.NodeCfg) (*bootSnap, error) {
	kb, _ := json.Marshal(struct {
		C ck.ChainCfg
		N ck.NodeCfg
	}{chain, node})
	snapMu.Lock()
	defer snapMu.Unlock()
	if s := snaps[string(kb)]; s != nil {
		return s, nil
	}
	b, err := ck.NewBuilder(chain)
	if err != nil {
		return nil, err
	}
	defer b.Close()
	boot, err := b.Bootstrap()
	if err != nil {
		return nil, fmt.Errorf("bootstrap: %v", err)
	}
	s := &bootSnap{boot: boot, deployed: b.Deployed, txHashes: append([]util.Uint256{}, b.TxHashes...)}
	n := b.N
	if node != (ck.NodeCfg{Backend: "mem"}) {
		if n, err = ck.NewNode(chain, node, nil); err != nil {
			return nil, err
		}
		defer n.Close()
		for _, raw := range boot {
			blk, err := ck.DecodeBlock(raw, chain.SRIH)
			if err != nil {
				return nil, err
			}
			if err := n.BC.AddBlock(blk); err != nil {
				return nil, fmt.Errorf("node rejects bootstrap block: %v", err)
			}
		}
	}
	n.Stop() // flushes
	s.puts, s.stores = copyStore(n.Base())
	snaps[string(kb)] = s
	return s, nil
}
