package c06

import (
	"fmt"

	"github.com/nspcc-dev/neo-go/pkg/core/block"
	"pgregory.net/rapid"
	ck "verifharness/chainkit"
	"verifharness/vt"
)

// abandoned: "only valid chain extensions are accepted" after the node left a continuation. A node holds blocks
// 1..N and the headers N+1..N+K of chain A, is reset to R <= N (the "db reset" procedure) and follows ANOTHER
// continuation B (same validators, other blocks) from R+1 on. Every block of the abandoned continuation
// A[R+1 .. N+K+1] is validly signed, but none of them extends the tip of B: offered at every height of B (also right
// when B reaches the index of the last header of A that the node had seen), each is refused and changes nothing
// (height, top hash, header height); B's own next block is accepted afterwards.
type AbandonedCase struct {
	Chain ck.ChainCfg `json:"chain"`
	N     int         `json:"n"`       // blocks of A stored
	K     int         `json:"k"`       // further headers of A known (0: none)
	Back  int         `json:"back"`    // R = N - Back
	Extra int         `json:"extra"`   // blocks of B built beyond N+K
	Via   bool        `json:"via_hdr"` // the abandoned blocks are offered through AddHeaders first
}

func genAbandonedCase(t *rapid.T) AbandonedCase {
	c := AbandonedCase{
		Chain: ck.ChainCfg{Profile: rapid.SampledFrom([]string{"V1C1", "V4C6"}).Draw(t, "profile"), SRIH: rapid.Bool().Draw(t, "srih")},
		N:     rapid.IntRange(2, 8).Draw(t, "n"),
		K:     rapid.SampledFrom([]int{0, 1, 2, 3, 5}).Draw(t, "k"),
		Extra: rapid.IntRange(1, 3).Draw(t, "extra"),
		Via:   rapid.Bool().Draw(t, "via_hdr"),
	}
	c.Back = rapid.IntRange(1, c.N-1).Draw(t, "back")
	return c
}

func checkAbandonedCase(c AbandonedCase, o *vt.Obs) error {
	if c.N < 2 || c.N > 40 || c.K < 0 || c.K > 20 || c.Back < 1 || c.Back >= c.N || c.Extra < 1 || c.Extra > 10 {
		return nil
	}
	a, err := ck.NewBuilder(c.Chain)
	if err != nil {
		return err
	}
	defer a.Close()
	n, err := ck.NewNode(c.Chain, ck.NodeCfg{Backend: "mem"}, nil)
	if err != nil {
		return err
	}
	defer n.Close()
	total := c.N + c.K + 1
	var aRaw [][]byte
	var aBlk []*block.Block
	for i := 1; i <= total; i++ {
		raw, blk, err := a.BuildBlock(ck.BlockSpec{TimeD: 1000, Nonce: uint64(1000 + i)})
		if err != nil {
			return fmt.Errorf("chain A block %d: %v", i, err)
		}
		aRaw, aBlk = append(aRaw, raw), append(aBlk, blk)
	}
	dec := func(raw []byte) *block.Block {
		b, err := ck.DecodeBlock(raw, c.Chain.SRIH)
		if err != nil {
			panic(err)
		}
		return b
	}
	for i := 1; i <= c.N; i++ {
		if err := n.BC.AddBlock(dec(aRaw[i-1])); err != nil {
			return fmt.Errorf("block A%d refused: %v", i, err)
		}
	}
	if c.K > 0 {
		var hs []*block.Header
		for i := c.N + 1; i <= c.N+c.K; i++ {
			hs = append(hs, &dec(aRaw[i-1]).Header)
		}
		if err := n.BC.AddHeaders(hs...); err != nil {
			return fmt.Errorf("headers A%d..A%d refused: %v", c.N+1, c.N+c.K, err)
		}
	}
	r := c.N - c.Back
	if err := n.ResetTo(uint32(r)); err != nil {
		return fmt.Errorf("reset to %d: %v", r, err)
	}
	if h, hh := n.BC.BlockHeight(), n.BC.HeaderHeight(); h != uint32(r) || hh != uint32(r) {
		return fmt.Errorf("after the reset to %d the node reports block height %d, header height %d", r, h, hh)
	}
	// chain B: the same blocks up to R, then its own
	b, err := ck.NewBuilder(c.Chain)
	if err != nil {
		return err
	}
	defer b.Close()
	for i := 1; i <= r; i++ {
		if err := b.N.BC.AddBlock(dec(aRaw[i-1])); err != nil {
			return fmt.Errorf("builder B refuses A%d: %v", i, err)
		}
	}
	offerAbandoned := func(where string) error {
		h, top, hh := n.BC.BlockHeight(), n.BC.CurrentBlockHash(), n.BC.HeaderHeight()
		for i := r + 1; i <= total; i++ {
			blk := dec(aRaw[i-1])
			if uint32(i) <= h && blk.Hash() == n.BC.GetHeaderHash(uint32(i)) {
				continue // cannot happen: B differs from A above R
			}
			if c.Via {
				_ = n.BC.AddHeaders(&blk.Header) // a header that does not extend the header chain is dropped or refused
			}
			err := n.BC.AddBlock(blk)
			if h2, top2 := n.BC.BlockHeight(), n.BC.CurrentBlockHash(); h2 != h || top2 != top {
				return fmt.Errorf("%s: block A%d of the abandoned continuation (previous block %s) offered to the node at height %d (tip %s): AddBlock says %v, the node is now at height %d with tip %s",
					where, i, blk.PrevHash.StringLE(), h, top.StringLE(), err, h2, top2.StringLE())
			}
			if uint32(i) == h+1 && err == nil {
				return fmt.Errorf("%s: block A%d of the abandoned continuation is accepted (nil) as the next block although its previous block is not the tip", where, i)
			}
			if hh2 := n.BC.HeaderHeight(); hh2 != hh && !c.Via {
				return fmt.Errorf("%s: offering block A%d moved the header height %d -> %d", where, i, hh, hh2)
			}
			hh = n.BC.HeaderHeight()
		}
		return nil
	}
	// (right after the reset A[R+1] is a valid extension of the tip: the abandoned blocks are offered once B has diverged)
	for i := r + 1; i <= c.N+c.K+c.Extra; i++ {
		raw, _, err := b.BuildBlock(ck.BlockSpec{TimeD: 1500, Nonce: uint64(5000 + i)})
		if err != nil {
			return fmt.Errorf("chain B block %d: %v", i, err)
		}
		if err := n.BC.AddBlock(dec(raw)); err != nil {
			return fmt.Errorf("height %d: the node refuses block B%d of the continuation it follows: %v", n.BC.BlockHeight(), i, err)
		}
		if err := offerAbandoned(fmt.Sprintf("following B at height %d (the node had seen chain A up to header %d before the reset)", i, c.N+c.K)); err != nil {
			return err
		}
		o.Units(1)
	}
	if got, want := n.BC.CurrentBlockHash(), b.N.BC.CurrentBlockHash(); got != want {
		return fmt.Errorf("at the end the tip is %s, chain B has %s", got.StringLE(), want.StringLE())
	}
	_ = aBlk
	if c.K > 0 {
		o.Label("abandoned-headers-ahead")
	}
	o.NonTrivial()
	return nil
}

func init() {
	vt.Register("abandoned", 0.15, genAbandonedCase, checkAbandonedCase)
}
