package c06

import (
	"errors"
	"fmt"

	"github.com/nspcc-dev/neo-go/pkg/core/block"
	"github.com/nspcc-dev/neo-go/pkg/core/fee"
	"github.com/nspcc-dev/neo-go/pkg/core/mempool"
	"github.com/nspcc-dev/neo-go/pkg/core/native/nativehashes"
	"github.com/nspcc-dev/neo-go/pkg/core/transaction"
	"github.com/nspcc-dev/neo-go/pkg/io"
	"github.com/nspcc-dev/neo-go/pkg/smartcontract/callflag"
	"github.com/nspcc-dev/neo-go/pkg/util"
	"github.com/nspcc-dev/neo-go/pkg/vm/emit"
	"github.com/nspcc-dev/neo-go/pkg/vm/opcode"
	ck "verifharness/chainkit"
)

// world is everything built once per case on the reference node (the builder): the history as bytes, the context
// of height N (the tip the corrupted block is submitted on), crafted transactions valid/invalid at N, B and B2.
type world struct {
	c    Case
	b    *ck.Builder
	srih bool

	hist    [][]byte                   // blocks 1..N as bytes
	histTxs []*transaction.Transaction // every on-chain transaction of blocks 1..N (decoded copies)
	N       uint32
	prev    *block.Header // header N
	prevRaw []byte        // block N as bytes
	pprev   *block.Header // header N-1
	rootN   util.Uint256  // local state root at N
	rootPP  util.Uint256  // state root at N-1
	vals    ck.Actor      // multisig that has to sign block N+1
	vals2   ck.Actor      // multisig that has to sign block N+2 (after B)
	maxInc  uint32
	txHashN []util.Uint256 // builder's tx hash history at N

	pool [][]byte // extra valid txs (bytes) for the mempool pre-fill

	// crafted transactions (built at N, before B)
	p, q                                ck.Key
	balP                                int64
	expired, far                        *transaction.Transaction
	nvbFuture, highNoCommittee, dupAttr *transaction.Transaction // attribute rules broken in exactly one respect
	cV                                  *transaction.Transaction // ordinary tx by p (overpaying network fee)
	cTlow, cThigh                       *transaction.Transaction // by p, Conflicts(cV), network fee below / above cV's
	cTother                             *transaction.Transaction // by q, Conflicts(cV)
	onchainRev                          *transaction.Transaction // by p, Conflicts(an on-chain tx)
	over1, over2                        *transaction.Transaction // by p, each affordable, together above the balance
	under                               *transaction.Transaction // by p, fees above the balance
	overLimit                           *transaction.Transaction // by p, affordable, system fee above MaxBlockSystemFee
	extraOK                             *transaction.Transaction // by q, plain valid transfer not in B
	oc                                  map[string]*ocCase       // per on-chain-Conflicts catalogue entry (setup block only)
	vals3                               ck.Actor                 // multisig that has to sign block N+3 (after B2)
	rootB2                              util.Uint256             // state root after B2
	marker                              util.Uint256             // on-chain tx of the setup block with a still valid ValidUntilBlock

	B     *block.Block
	Braw  []byte
	B2    *block.Block
	B2raw []byte

	okAtN map[util.Uint256]bool  // crafted txs admitted alone by the builder at N
	balOf map[util.Uint160]int64 // GAS balances of the accounts at N

	twins map[int]*twinSnap
}

func (w *world) close() { w.b.Close() }

func encTx(tx *transaction.Transaction) []byte {
	bw := io.NewBufBinWriter()
	tx.EncodeBinary(bw.BinWriter)
	return bw.Bytes()
}

func encBlock(b *block.Block) []byte {
	bw := io.NewBufBinWriter()
	b.EncodeBinary(bw.BinWriter)
	return bw.Bytes()
}

func encHeader(h *block.Header) []byte {
	bw := io.NewBufBinWriter()
	h.EncodeBinary(bw.BinWriter)
	return bw.Bytes()
}

func decHeader(raw []byte, srih bool) (*block.Header, error) {
	h := &block.Header{StateRootEnabled: srih}
	r := io.NewBinReaderFromBuf(raw)
	h.DecodeBinary(r)
	return h, r.Err
}

// cloneTx gives a pointer-disjoint copy (what a peer would decode).
func cloneTx(tx *transaction.Transaction) *transaction.Transaction {
	t, err := transaction.NewTransactionFromBytes(encTx(tx))
	if err != nil {
		panic(err)
	}
	return t
}

// remakeTx copies the exported fields into a fresh struct (no cached hash/size), applies mod.
func remakeTx(tx *transaction.Transaction, mod func(t *transaction.Transaction)) *transaction.Transaction {
	n := &transaction.Transaction{
		Version:         tx.Version,
		Nonce:           tx.Nonce,
		SystemFee:       tx.SystemFee,
		NetworkFee:      tx.NetworkFee,
		ValidUntilBlock: tx.ValidUntilBlock,
		Script:          append([]byte{}, tx.Script...),
		Attributes:      append([]transaction.Attribute{}, tx.Attributes...),
		Signers:         append([]transaction.Signer{}, tx.Signers...),
	}
	for _, s := range tx.Scripts {
		n.Scripts = append(n.Scripts, transaction.Witness{
			InvocationScript:   append([]byte{}, s.InvocationScript...),
			VerificationScript: append([]byte{}, s.VerificationScript...),
		})
	}
	if mod != nil {
		mod(n)
	}
	return n
}

// copyHeader copies the exported fields (no cached hash).
func copyHeader(h *block.Header) block.Header {
	return block.Header{
		Version:          h.Version,
		PrevHash:         h.PrevHash,
		MerkleRoot:       h.MerkleRoot,
		Timestamp:        h.Timestamp,
		Nonce:            h.Nonce,
		Index:            h.Index,
		NextConsensus:    h.NextConsensus,
		StateRootEnabled: h.StateRootEnabled,
		PrevStateRoot:    h.PrevStateRoot,
		PrimaryIndex:     h.PrimaryIndex,
		Script: transaction.Witness{
			InvocationScript:   append([]byte{}, h.Script.InvocationScript...),
			VerificationScript: append([]byte{}, h.Script.VerificationScript...),
		},
	}
}

// freshB returns a mutable copy of B with no cached hashes in the header.
func (w *world) freshB() *block.Block {
	nb := &block.Block{Header: copyHeader(&w.B.Header)}
	for _, tx := range w.B.Transactions {
		nb.Transactions = append(nb.Transactions, cloneTx(tx))
	}
	return nb
}

// sign puts the witness of actor a on the block (the header hash is computed here: no header edits afterwards).
func sign(b *block.Block, a ck.Actor) {
	b.Script = transaction.Witness{VerificationScript: append([]byte{}, a.Ver...)}
	b.Script.InvocationScript = a.Invocation(b)
}

// craft builds a signed GAS transfer of 1 datoshi unit from `from` with exact (or overpaid) network fee.
// sysFee < 0: measured by a test invocation. netFee < 0: exact requirement + extraNet.
func (w *world) craft(from ck.Key, to util.Uint160, nonce uint32, vub uint32, attrs []transaction.Attribute, sysFee int64, netFee int64, extraNet int64) *transaction.Transaction {
	return w.craftMulti([]ck.Key{from}, to, nonce, vub, attrs, sysFee, netFee, extraNet)
}

// craftMulti is craft with several signers (the first one is the sender and the source of the transfer).
func (w *world) craftMulti(signers []ck.Key, to util.Uint160, nonce uint32, vub uint32, attrs []transaction.Attribute, sysFee int64, netFee int64, extraNet int64) *transaction.Transaction {
	bc := w.b.N.BC
	bw := io.NewBufBinWriter()
	emit.AppCall(bw.BinWriter, nativehashes.GasToken, "transfer", callflag.All, signers[0].Hash, to, int64(1), nil)
	emit.Opcodes(bw.BinWriter, opcode.ASSERT)
	tx := &transaction.Transaction{
		Nonce:           nonce,
		ValidUntilBlock: vub,
		Script:          bw.Bytes(),
		Attributes:      attrs,
	}
	for _, k := range signers {
		tx.Signers = append(tx.Signers, transaction.Signer{Account: k.Hash, Scopes: transaction.CalledByEntry})
		tx.Scripts = append(tx.Scripts, transaction.Witness{InvocationScript: make([]byte, 66), VerificationScript: k.Ver})
	}
	if sysFee < 0 {
		g, _ := w.b.TestInvoke(tx)
		sysFee = g
	}
	tx.SystemFee = sysFee
	if netFee < 0 {
		netFee = int64(io.GetVarSize(tx))*bc.FeePerByte() + bc.CalculateAttributesFee(tx) + extraNet
		for _, k := range signers {
			vf, _ := fee.Calculate(bc.GetBaseExecFee(), k.Ver)
			netFee += vf
		}
	}
	tx.NetworkFee = netFee
	for i, k := range signers {
		tx.Scripts[i].InvocationScript = ck.Single(k).Invocation(tx)
	}
	return tx
}

// ocCase is one on-chain-Conflicts situation prepared by the setup block: the on-chain transaction Bc names the
// never-sent transaction A in one of its Conflicts attributes.
type ocCase struct {
	A       *transaction.Transaction
	sibling *transaction.Transaction // same signers as A, named by nobody: tells whether A is fine apart from the conflict
	sibOK   bool
	labels  []string
}

// ocKinds are the catalogue entries served by the setup block, in this order.
var ocKinds = []string{"tx-conflict-onchain", "tx-conflict-onchain-s2", "tx-conflict-onchain-s3", "tx-conflict-onchain-nocommon"}

func conflictsAttr(h util.Uint256) []transaction.Attribute {
	return []transaction.Attribute{{Type: transaction.ConflictsT, Value: &transaction.Conflicts{Hash: h}}}
}

// validAlone reports whether the builder's node admits tx into an empty scratch pool at the current state.
func (w *world) validAlone(tx *transaction.Transaction) bool {
	return w.b.N.BC.PoolTx(cloneTx(tx), mempool.New(4, false, nil)) == nil
}

func (w *world) addCrafted(txs []*transaction.Transaction, timeD uint32, nonce uint64) error {
	blk, err := w.b.NextBlock(txs, timeD, nonce, 0)
	if err != nil {
		return err
	}
	raw := encBlock(blk)
	if err := w.b.N.BC.AddBlock(blk); err != nil {
		return fmt.Errorf("builder rejected the crafted setup block: %w", err)
	}
	for _, tx := range txs {
		w.b.TxHashes = append(w.b.TxHashes, tx.Hash())
	}
	w.hist = append(w.hist, raw)
	return nil
}

func buildWorld(c Case) (*world, error) {
	bs, err := bootSnapshot(c.Chain, ck.NodeCfg{Backend: "mem"})
	if err != nil {
		return nil, fmt.Errorf("builder: %v", err)
	}
	bn, err := ck.NewNodeOnStore(c.Chain, ck.NodeCfg{Backend: "mem"}, bs.clone())
	if err != nil {
		return nil, fmt.Errorf("builder: %v", err)
	}
	b := &ck.Builder{N: bn, Deployed: append([]ck.Deployed{}, bs.deployed...), TxHashes: append([]util.Uint256{}, bs.txHashes...), Rejected: map[string]int{}}
	w := &world{c: c, b: b, srih: c.Chain.SRIH, twins: map[int]*twinSnap{}}
	ok := false
	defer func() {
		if !ok {
			b.Close()
		}
	}()
	w.hist = append(w.hist, bs.boot...)
	for i, spec := range c.Blocks {
		raw, _, err := b.BuildBlock(spec)
		if err != nil {
			return nil, fmt.Errorf("history block %d: %v", i, err)
		}
		w.hist = append(w.hist, raw)
	}
	bc := b.N.BC
	w.p = ck.Accounts[((c.Acct%ck.NAccounts)+ck.NAccounts)%ck.NAccounts]
	w.q = ck.Accounts[((c.Acct+1)%ck.NAccounts+ck.NAccounts)%ck.NAccounts]
	if c.Setup {
		h := bc.BlockHeight() // the setup block is h+1 = N, the corrupted block N+1 = h+2
		inc := bc.GetMaxValidUntilBlockIncrement()
		mv := h + 1
		if inc >= 2 {
			mv = h + 2
		}
		m := w.craft(w.q, w.p.Hash, 0xC0600003, mv, nil, -1, -1, 0)
		var txs []*transaction.Transaction
		scratch := mempool.New(16, false, nil)
		// On-chain Conflicts situations: A (valid at N for block N+1, never sent) is named by the on-chain Bc.
		// X is the common signer; its position among A's signers is fixed per entry, everything else is drawn
		// from Corr.X: X's position among Bc's signers, the number of Conflicts attributes of Bc (1..3) and
		// which of them names A (the others name transactions nobody ever saw).
		acc := func(i int) ck.Key { return ck.Accounts[((c.Acct+i)%ck.NAccounts+ck.NAccounts)%ck.NAccounts] }
		X, Y, Z, W, V := acc(0), acc(1), acc(2), acc(3), acc(4)
		w.oc = map[string]*ocCase{}
		for t, kind := range ocKinds {
			v := mix(uint64(c.Corr.X)*31 + uint64(t))
			var aS, bS []ck.Key
			oc := &ocCase{}
			switch t {
			case 0:
				aS = []ck.Key{X}
			case 1:
				aS = []ck.Key{Y, X}
			case 2:
				aS = []ck.Key{Y, Z, X}
			default: // control: no common signer
				aS = []ck.Key{Y}
				if v&(1<<20) != 0 {
					aS = []ck.Key{Y, Z}
				}
			}
			switch {
			case t == 3 && v%2 == 0:
				bS = []ck.Key{W}
			case t == 3:
				bS = []ck.Key{W, V}
			case v%3 == 0:
				bS = []ck.Key{X}
			case v%3 == 1:
				bS = []ck.Key{W, X}
				oc.labels = append(oc.labels, "oc-common-signer-second-on-chain")
			default:
				bS = []ck.Key{W, V, X}
				oc.labels = append(oc.labels, "oc-common-signer-third-on-chain")
			}
			nattr := 1 + int(v>>8)%3
			k := int(v>>16) % nattr
			if nattr > 1 && (v>>24)%4 != 0 { // mostly NOT the first named hash
				k = 1 + int(v>>16)%(nattr-1)
			}
			if k > 0 {
				oc.labels = append(oc.labels, "oc-named-not-first")
			}
			oc.A = w.craftMulti(aS, W.Hash, 0xC0620000+uint32(t), h+2, nil, -1, -1, 0)
			oc.sibling = w.craftMulti(aS, W.Hash, 0xC0620100+uint32(t), h+2, nil, -1, -1, 0)
			var attrs []transaction.Attribute
			for j := 0; j < nattr; j++ {
				hsh := util.Uint256{0xEE, byte(t), byte(j)}
				if j == k {
					hsh = oc.A.Hash()
				}
				attrs = append(attrs, conflictsAttr(hsh)...)
			}
			bcTx := w.craftMulti(bS, Y.Hash, 0xC0620200+uint32(t), h+1, attrs, -1, -1, 0)
			if bc.PoolTx(cloneTx(bcTx), scratch) == nil {
				txs = append(txs, bcTx)
				w.oc[kind] = oc
			}
		}
		if bc.PoolTx(cloneTx(m), scratch) == nil {
			txs = append(txs, m)
			w.marker = m.Hash()
		}
		if err := w.addCrafted(txs, 1500, 0xC06); err != nil {
			return nil, err
		}
	}
	// ---- context of height N ----
	w.N = bc.BlockHeight()
	w.maxInc = bc.GetMaxValidUntilBlockIncrement()
	w.txHashN = append([]util.Uint256{}, b.TxHashes...)
	for _, raw := range w.hist {
		blk, err := ck.DecodeBlock(raw, w.srih)
		if err != nil {
			return nil, fmt.Errorf("own history does not decode: %v", err)
		}
		w.histTxs = append(w.histTxs, blk.Transactions...)
	}
	w.prevRaw = w.hist[len(w.hist)-1]
	if w.prev, err = bc.GetHeader(bc.CurrentBlockHash()); err != nil {
		return nil, err
	}
	if w.pprev, err = bc.GetHeader(w.prev.PrevHash); err != nil {
		return nil, err
	}
	w.rootN = bc.GetStateModule().CurrentLocalStateRoot()
	if sr, err := bc.GetStateRoot(w.N - 1); err == nil {
		w.rootPP = sr.Root
	}
	if w.vals, err = b.ValidatorsActor(); err != nil {
		return nil, err
	}
	for _, a := range c.Pool {
		if tx, err := b.MakeTx(a); err == nil {
			w.pool = append(w.pool, encTx(tx))
		}
	}
	// ---- crafted transactions at N ----
	N := w.N
	w.balP = bc.GetUtilityTokenBalance(w.p.Hash, util.Uint160{}).Int64()
	w.expired = w.craft(w.p, w.q.Hash, 0xC0610001, N, nil, -1, -1, 0)
	w.far = w.craft(w.p, w.q.Hash, 0xC0610002, N+w.maxInc+1, nil, -1, -1, 0)
	w.nvbFuture = w.craft(w.p, w.q.Hash, 0xC061000D, N+3, []transaction.Attribute{{Type: transaction.NotValidBeforeT, Value: &transaction.NotValidBefore{Height: N + 2}}}, -1, -1, 0)
	w.highNoCommittee = w.craft(w.p, w.q.Hash, 0xC061000E, N+1, []transaction.Attribute{{Type: transaction.HighPriority}}, -1, -1, 0)
	w.dupAttr = w.craft(w.p, w.q.Hash, 0xC061000F, N+1, []transaction.Attribute{{Type: transaction.HighPriority}, {Type: transaction.HighPriority}}, -1, -1, 0)
	{
		dummy := w.craft(w.p, w.q.Hash, 0xC0610004, N+1, conflictsAttr(util.Uint256{1}), -1, -1, 0)
		feeT := dummy.NetworkFee
		plain := w.craft(w.p, w.q.Hash, 0xC0610003, N+1, nil, -1, -1, 0)
		w.cV = w.craft(w.p, w.q.Hash, 0xC0610003, N+1, nil, plain.SystemFee, max(plain.NetworkFee, feeT+1000), 0)
		w.cTlow = w.craft(w.p, w.q.Hash, 0xC0610004, N+1, conflictsAttr(w.cV.Hash()), dummy.SystemFee, feeT, 0)
		w.cThigh = w.craft(w.p, w.q.Hash, 0xC0610005, N+1, conflictsAttr(w.cV.Hash()), dummy.SystemFee, w.cV.NetworkFee+1000, 0)
		w.cTother = w.craft(w.q, w.p.Hash, 0xC0610006, N+1, conflictsAttr(w.cV.Hash()), -1, -1, 0)
	}
	w.onchainRev = w.craft(w.p, w.q.Hash, 0xC0610007, N+1, conflictsAttr(w.histTxs[len(w.histTxs)-1].Hash()), -1, -1, 0)
	big6 := w.balP / 10 * 6
	w.over1 = w.craft(w.p, w.q.Hash, 0xC0610008, N+1, nil, big6, -1, 0)
	w.over2 = w.craft(w.p, w.q.Hash, 0xC0610009, N+1, nil, big6, -1, 0)
	w.under = w.craft(w.p, w.q.Hash, 0xC061000A, N+1, nil, w.balP+1, -1, 0)
	w.extraOK = w.craft(w.q, w.p.Hash, 0xC061000B, N+1, nil, -1, -1, 0)
	if lim := bc.GetConfig().MaxBlockSystemFee; w.balP > lim+100_0000_0000 {
		w.overLimit = w.craft(w.p, w.q.Hash, 0xC061000C, N+1, nil, lim+1, -1, 0)
	}
	w.okAtN = map[util.Uint256]bool{}
	w.balOf = map[util.Uint160]int64{}
	for _, k := range ck.Accounts {
		w.balOf[k.Hash] = bc.GetUtilityTokenBalance(k.Hash, util.Uint160{}).Int64()
	}
	for _, oc := range w.oc {
		oc.sibOK = w.validAlone(oc.sibling)
	}
	for _, tx := range []*transaction.Transaction{w.cV, w.cTlow, w.cThigh, w.cTother, w.extraOK} {
		w.okAtN[tx.Hash()] = w.validAlone(tx)
	}
	// ---- B and B2 ----
	if w.Braw, w.B, err = b.BuildBlock(c.Next); err != nil {
		return nil, fmt.Errorf("next block: %v", err)
	}
	if w.vals2, err = b.ValidatorsActor(); err != nil {
		return nil, err
	}
	if w.B2raw, w.B2, err = b.BuildBlock(c.After); err != nil {
		return nil, fmt.Errorf("block after next: %v", err)
	}
	if w.vals3, err = b.ValidatorsActor(); err != nil {
		return nil, err
	}
	w.rootB2 = bc.GetStateModule().CurrentLocalStateRoot()
	if w.B.Index != w.N+1 || w.B2.Index != w.N+2 {
		return nil, errors.New("harness: unexpected block indexes")
	}
	ok = true
	return w, nil
}
