package c06

import (
	"fmt"
	"strings"

	"github.com/nspcc-dev/neo-go/pkg/core/block"
	"github.com/nspcc-dev/neo-go/pkg/util"
	ck "verifharness/chainkit"
	"verifharness/vt"
)

const knownTransferLog = "refused-block-bumps-transfer-log-counter"

// runNextHeaderMismatch reaches the storeBlock error return that follows the state computation. The node's header
// chain runs ahead of its blocks: the real header of B (and, in the deeper variant, of B2), then a header W that is
// signed by the right validators but carries a wrong PrevStateRoot (a header alone cannot be checked against a state
// that does not exist yet), then ahead-1 more validly signed headers on top of W. The block R right below W (B, or B2
// after B has gone in normally) is executed, its state root disagrees with W, R is refused. The refusal must change
// nothing: heights, tips, full state dump, mempool, backend after a flush (against a twin that never saw R); a second
// submission gives the same answer; a restart finds the same state.
//
//	ahead = number of known headers above R at the moment R is submitted (1: W is the last known header,
//	        2 and 3: W is a middle header).
//	Corr.X bit 8: R = B (0) or R = B2 (1); bit 9: headers submitted in one AddHeaders call or one by one.
func runNextHeaderMismatch(w *world, cr Corruption, o *vt.Obs, name string, ahead int) error {
	deep := (cr.X>>8)&1 == 1
	batch := (cr.X>>9)&1 == 1
	o.Label("class-next-header-stateroot")
	o.Labelf("sr-next/ahead=%d/deep=%v", ahead, deep)

	// The header chain the node is given.
	var hdrs []*block.Header
	add := func(h *block.Header) error {
		hh, err := decHeader(encHeader(h), w.srih)
		if err != nil {
			return err
		}
		hdrs = append(hdrs, hh)
		return nil
	}
	if err := add(&w.B.Header); err != nil {
		return err
	}
	signer, prev, goodRoot := w.vals2, &w.B.Header, w.B2.PrevStateRoot
	if deep {
		if err := add(&w.B2.Header); err != nil {
			return err
		}
		signer, prev, goodRoot = w.vals3, &w.B2.Header, w.rootB2
	}
	if prev.NextConsensus != signer.Hash {
		o.Label(name + "/skip-validators-unknown")
		return nil
	}
	mk := func(prev *block.Header, root util.Uint256) *block.Header {
		nb := &block.Block{Header: block.Header{
			PrevHash: prev.Hash(), Timestamp: prev.Timestamp + 1000, Nonce: uint64(cr.X), Index: prev.Index + 1,
			NextConsensus: signer.Hash, StateRootEnabled: true, PrevStateRoot: root,
		}}
		sign(nb, signer)
		return &nb.Header
	}
	wrong := mk(prev, flipBit256(goodRoot, cr.X))
	if err := add(wrong); err != nil {
		return err
	}
	top := wrong
	for i := 1; i < ahead; i++ {
		top = mk(top, goodRoot)
		if err := add(top); err != nil {
			return err
		}
	}
	prep := func() (*ck.Node, bool, error) {
		n, err := w.startNode(0, true)
		if err != nil {
			return nil, false, err
		}
		cp := make([]*block.Header, len(hdrs))
		for i, h := range hdrs {
			if cp[i], err = decHeader(encHeader(h), w.srih); err != nil {
				n.Close()
				return nil, false, err
			}
		}
		if batch {
			err = n.BC.AddHeaders(cp...)
		} else {
			for _, h := range cp {
				if err = n.BC.AddHeaders(h); err != nil {
					break
				}
			}
		}
		if err != nil || n.BC.HeaderHeight() != top.Index {
			return n, false, nil
		}
		if deep {
			blk, err := ck.DecodeBlock(w.Braw, w.srih)
			if err != nil {
				n.Close()
				return nil, false, err
			}
			if err := n.BC.AddBlock(blk); err != nil {
				n.Close()
				return nil, false, fmt.Errorf("%s: the valid block B (its header and the matching header of B2 are on record) is refused: %v", name, err)
			}
		}
		return n, true, nil
	}
	n, ok, err := prep()
	if err != nil {
		return err
	}
	defer n.Close()
	if !ok {
		o.Label(name + "/headers-refused")
		return nil
	}
	before := takeSnap(n)
	rraw := w.Braw
	if deep {
		rraw = w.B2raw
	}
	where := fmt.Sprintf("%s at height %d (block under test %d, header height %d, wrong PrevStateRoot in header %d), %d pooled txs", name, w.N, before.bh+1, before.hh, wrong.Index, len(before.mem))
	blk, err := ck.DecodeBlock(rraw, w.srih)
	if err != nil {
		return err
	}
	aerr := n.BC.AddBlock(blk)
	if aerr == nil {
		return fmt.Errorf("%s: the block was ACCEPTED although the recorded next header carries a different previous state root (%s vs %s produced)", where, wrong.PrevStateRoot.StringLE(), goodRoot.StringLE())
	}
	o.Label(name + "/rejected")
	if d, _ := before.diff(takeSnap(n), nil); d != "" {
		return fmt.Errorf("%s: refused (%v) but %s", where, firstLine(aerr.Error()), d)
	}
	raw, err := flushRaw(n)
	if err != nil {
		return err
	}
	t, ok, err := prep()
	if err != nil {
		return err
	}
	defer t.Close()
	if !ok {
		return fmt.Errorf("harness: twin refused the headers the node accepted")
	}
	traw, err := flushRaw(t)
	if err != nil {
		return err
	}
	var allow map[string]bool
	if vt.Known(knownTransferLog) {
		// Known finding: the refused block's token transfers bump the entry counter of committed transfer-log
		// records in place. Those records are left out; everything else is still compared.
		allow = map[string]bool{}
		hit := false
		for k, v := range raw {
			if (strings.HasPrefix(k, "72") || strings.HasPrefix(k, "73")) && traw[k] != v {
				allow[k] = true
				hit = true
			}
		}
		if hit {
			o.Excluded()
			reconfirm(knownTransferLog, "reconfirmed: transfer-log record changed by a refused block")
		}
	}
	if d := diffRaw(raw, traw, allow); d != "" {
		return fmt.Errorf("%s: refused (%v) but the backend after a flush differs from a twin that never saw the block: %s", where, firstLine(aerr.Error()), d)
	}
	// Submitting it again must give the same answer and still change nothing (in-memory state of the state module).
	blk, _ = ck.DecodeBlock(rraw, w.srih)
	if err := n.BC.AddBlock(blk); err == nil {
		return fmt.Errorf("%s: refused the first time (%v), accepted the second time", where, firstLine(aerr.Error()))
	}
	if d, _ := before.diff(takeSnap(n), nil); d != "" {
		return fmt.Errorf("%s: refused twice but %s", where, d)
	}
	if err := n.Restart(); err != nil {
		return fmt.Errorf("%s: restart after the refusal failed: %v", where, err)
	}
	after := takeSnap(n)
	after.mem = before.mem // the mempool does not survive a restart
	if d, _ := before.diff(after, nil); d != "" {
		return fmt.Errorf("%s: after the refusal and a restart: %s", where, d)
	}
	if len(before.mem) > 0 {
		o.NonTrivial()
	}
	return nil
}
