package c06

import (
	"fmt"
	"strings"

	"github.com/nspcc-dev/neo-go/pkg/core/block"
	ck "verifharness/chainkit"
	"verifharness/vt"
)

const knownTransferLog = "refused-block-bumps-transfer-log-counter"

// runNextHeaderMismatch reaches the storeBlock error return that follows the state computation: the node trusts
// header N+1 (B's) and a header N+2 signed by the right validators but carrying a wrong PrevStateRoot (a header
// alone cannot be checked against a state that does not exist yet). B is executed, its state root disagrees with
// header N+2, B is refused. The property does not say B must be accepted here; it does say the refusal changes nothing.
func runNextHeaderMismatch(w *world, cr Corruption, o *vt.Obs) error {
	const name = "sr-next-header-mismatch"
	prep := func(withPool bool) (*ck.Node, bool, error) {
		n, err := w.startNode(1, withPool)
		if err != nil {
			return nil, false, err
		}
		h2 := &block.Block{Header: copyHeader(&w.B2.Header)}
		h2.PrevStateRoot = flipBit256(h2.PrevStateRoot, cr.X)
		sign(h2, w.vals2)
		hh, err := decHeader(encHeader(&h2.Header), w.srih)
		if err != nil {
			n.Close()
			return nil, false, err
		}
		if err := n.BC.AddHeaders(hh); err != nil || n.BC.HeaderHeight() != w.N+2 {
			return n, false, nil
		}
		return n, true, nil
	}
	n, ok, err := prep(true)
	if err != nil {
		return err
	}
	defer n.Close()
	if !ok {
		o.Label(name + "/second-header-refused")
		return nil
	}
	before := takeSnap(n)
	where := fmt.Sprintf("%s at height %d, %d pooled txs", name, w.N, len(before.mem))
	blk, err := ck.DecodeBlock(w.Braw, w.srih)
	if err != nil {
		return err
	}
	aerr := n.BC.AddBlock(blk)
	if aerr == nil {
		o.Label(name + "/accepted")
		return nil
	}
	o.Label(name + "/rejected")
	if d, _ := before.diff(takeSnap(n), nil); d != "" {
		return fmt.Errorf("%s: B refused (%v) but %s", where, firstLine(aerr.Error()), d)
	}
	raw, err := flushRaw(n)
	if err != nil {
		return err
	}
	t, ok, err := prep(true)
	if err != nil {
		return err
	}
	defer t.Close()
	if !ok {
		return fmt.Errorf("harness: twin refused the header the node accepted")
	}
	traw, err := flushRaw(t)
	if err != nil {
		return err
	}
	var allow map[string]bool
	if vt.Known(knownTransferLog) {
		// Known finding: the refused block's token transfers bump the entry counter of committed transfer-log
		// records in place. Those records are left out; everything else is still compared.
		allow = map[string]bool{}
		hit := false
		for k, v := range raw {
			if (strings.HasPrefix(k, "72") || strings.HasPrefix(k, "73")) && traw[k] != v {
				allow[k] = true
				hit = true
			}
		}
		if hit {
			o.Excluded()
			reconfirm(knownTransferLog, "reconfirmed: transfer-log record changed by a refused block")
		}
	}
	if d := diffRaw(raw, traw, allow); d != "" {
		return fmt.Errorf("%s: B refused (%v) but the backend after a flush differs from a twin that never saw B: %s", where, firstLine(aerr.Error()), d)
	}
	// Submitting it again must give the same answer and still change nothing (in-memory state of the state module).
	blk, _ = ck.DecodeBlock(w.Braw, w.srih)
	if err := n.BC.AddBlock(blk); err == nil {
		return fmt.Errorf("%s: B refused the first time (%v), accepted the second time", where, firstLine(aerr.Error()))
	}
	if d, _ := before.diff(takeSnap(n), nil); d != "" {
		return fmt.Errorf("%s: B refused twice but %s", where, d)
	}
	if err := n.Restart(); err != nil {
		return fmt.Errorf("%s: restart after the refusal failed: %v", where, err)
	}
	after := takeSnap(n)
	after.mem = before.mem // the mempool does not survive a restart
	if d, _ := before.diff(after, nil); d != "" {
		return fmt.Errorf("%s: after the refusal and a restart: %s", where, d)
	}
	if len(before.mem) > 0 {
		o.NonTrivial()
	}
	return nil
}
