package c06

import (
	"bytes"
	"fmt"
	"sync"
	"time"

	"github.com/nspcc-dev/neo-go/pkg/core/block"
	"github.com/nspcc-dev/neo-go/pkg/io"
	"github.com/nspcc-dev/neo-go/pkg/util"
	"pgregory.net/rapid"
	ck "verifharness/chainkit"
	"verifharness/vt"
)

// ConcCase (STRESS with respect to goroutine scheduling): blocks and headers reach a node from several sources at
// once (block queue, consensus, header synchronisation, RPC submitblock). The verdicts of the property do not depend
// on who wins a race, so the clauses below are schedule-independent:
//   - dup:    the same valid block offered by 2-4 goroutines is applied exactly once (one nil, the others refused),
//     the state equals the one of a node that got it once;
//   - forged: the genuine header N arrives (AddHeaders) while an UNSIGNED block N with other content is offered
//     (AddBlock): the forged block is never the tip, the genuine block is accepted afterwards;
//   - badroot (state root in header): block N is being added while a validly signed header N+1 with a wrong
//     PrevStateRoot arrives: the block carrying that header must not be accepted, whatever the order.
//
// After all rounds the node equals the reference node (full state dump, hashes).
type ConcCase struct {
	Chain  ck.ChainCfg    `json:"chain"`
	Node   ck.NodeCfg     `json:"node"`
	Blocks []ck.BlockSpec `json:"blocks"`
	Rounds []ConcRound    `json:"rounds"` // one per block
}

type ConcRound struct {
	Kind  string `json:"kind"` // plain | dup | forged | badroot
	Procs int    `json:"procs"`
	Seed  uint64 `json:"seed"`
	Delay int    `json:"delay_ns"` // busy-wait of the second goroutine after the common start signal
}

func genConcCase(t *rapid.T) ConcCase {
	c := ConcCase{Chain: ck.GenChainCfg(t, false), Node: ck.NodeCfg{Backend: "mem"}}
	c.Chain.MTB = 0
	bias := ck.BalancedBias(c.Chain.P2PSig)
	n := rapid.IntRange(6, 14).Draw(t, "nblocks")
	for i := 0; i < n; i++ {
		c.Blocks = append(c.Blocks, ck.GenBlock(t, bias, 2))
		c.Rounds = append(c.Rounds, ConcRound{
			Kind:  rapid.SampledFrom([]string{"plain", "dup", "dup", "forged", "forged", "forged", "badroot", "badroot"}).Draw(t, "kind"),
			Procs: rapid.IntRange(2, 4).Draw(t, "procs"),
			Seed:  rapid.Uint64().Draw(t, "seed"),
			Delay: rapid.SampledFrom([]int{0, 2000, 5000, 10000, 20000, 30000, 50000, 80000, 120000, 200000, 400000}).Draw(t, "delay"),
		})
	}
	return c
}

// spin busy-waits (the scheduler must not be given a chance to reorder the two goroutines by parking one).
func spin(ns int) {
	for st := time.Now(); time.Since(st) < time.Duration(ns); {
	}
}

func encB(b *block.Block) []byte {
	w := io.NewBufBinWriter()
	b.EncodeBinary(w.BinWriter)
	return w.Bytes()
}

func checkConcCase(c ConcCase, o *vt.Obs) error {
	if len(c.Blocks) == 0 || len(c.Rounds) != len(c.Blocks) {
		return nil
	}
	b, err := ck.NewBuilder(c.Chain)
	if err != nil {
		return fmt.Errorf("builder: %v", err)
	}
	defer b.Close()
	boot, err := b.Bootstrap()
	if err != nil {
		return fmt.Errorf("bootstrap: %v", err)
	}
	n, err := ck.NewNode(c.Chain, c.Node, nil)
	if err != nil {
		return fmt.Errorf("node: %v", err)
	}
	defer n.Close()
	srih := c.Chain.SRIH
	feed := func(raw []byte) error {
		blk, err := ck.DecodeBlock(raw, srih)
		if err != nil {
			return err
		}
		return n.BC.AddBlock(blk)
	}
	for _, raw := range boot {
		if err := feed(raw); err != nil {
			return fmt.Errorf("bootstrap block refused by the node: %v", err)
		}
	}
	// The reference builds block i and (for badroot) the block after it is assembled, not added.
	for i, spec := range c.Blocks {
		r := c.Rounds[i]
		raw, blk, err := b.BuildBlock(spec)
		if err != nil {
			return fmt.Errorf("block %d: %v", i, err)
		}
		idx := blk.Index
		switch r.Kind {
		case "dup":
			var wg sync.WaitGroup
			errs := make([]error, r.Procs)
			for g := 0; g < r.Procs; g++ {
				wg.Add(1)
				go func(g int) {
					defer wg.Done()
					errs[g] = feed(raw)
				}(g)
			}
			wg.Wait()
			ok := 0
			for _, e := range errs {
				if e == nil {
					ok++
				}
			}
			o.Units(r.Procs)
			if ok != 1 {
				return fmt.Errorf("block %d offered by %d goroutines at once: %d of the calls returned nil (%v); a block is applied once", idx, r.Procs, ok, errs)
			}
			o.Label("dup")
		case "forged":
			fb, err := ck.DecodeBlock(raw, srih)
			if err != nil {
				return err
			}
			fb.Nonce ^= 1 + r.Seed
			fb.Timestamp += 1 + r.Seed%1000
			if r.Seed&1 != 0 {
				fb.PrevHash = util.Uint256{0xbd}
			}
			fb.Script.InvocationScript = []byte{0x0c, 0x40} // nobody signed it
			fb, err = ck.DecodeBlock(encB(fb), srih)        // the hash is the hash of the forged header
			if err != nil {
				fb = nil // truncated witness does not decode: use an empty invocation script
				f2, _ := ck.DecodeBlock(raw, srih)
				f2.Nonce ^= 1 + r.Seed
				f2.Script.InvocationScript = nil
				fb, err = ck.DecodeBlock(encB(f2), srih)
				if err != nil {
					return err
				}
			}
			genuine, err := ck.DecodeBlock(raw, srih)
			if err != nil {
				return err
			}
			var wg sync.WaitGroup
			var herr, ferr error
			start := make(chan struct{})
			wg.Add(2)
			go func() { defer wg.Done(); <-start; herr = n.BC.AddHeaders(&genuine.Header) }()
			go func() { defer wg.Done(); <-start; spin(r.Delay); ferr = n.BC.AddBlock(fb) }()
			close(start)
			wg.Wait()
			o.Units(2)
			if n.BC.BlockHeight() >= idx && n.BC.GetHeaderHash(idx) != blk.Hash() || n.BC.CurrentBlockHash() == fb.Hash() || ferr == nil {
				return fmt.Errorf("an UNSIGNED block %d (hash %s) offered while the genuine header arrived: AddBlock returned %v, tip is %s at height %d, header chain has %s there (AddHeaders: %v)",
					idx, fb.Hash().StringLE(), ferr, n.BC.CurrentBlockHash().StringLE(), n.BC.BlockHeight(), n.BC.GetHeaderHash(idx).StringLE(), herr)
			}
			if err := feed(raw); err != nil {
				return fmt.Errorf("genuine block %d refused after a forged one had been offered: %v", idx, err)
			}
			o.Label("forged")
		case "badroot":
			if !srih {
				if err := feed(raw); err != nil {
					return fmt.Errorf("block %d refused: %v", idx, err)
				}
				continue
			}
			vals, err := b.ValidatorsActor()
			if err != nil {
				return err
			}
			nb, err := b.NextBlock(nil, 1000, r.Seed, 0)
			if err != nil {
				return fmt.Errorf("assembling the block after %d: %v", idx, err)
			}
			nb.PrevStateRoot = util.Uint256{0x0b, 0xad, byte(r.Seed)}
			nb.Script.InvocationScript = vals.Invocation(nb)
			nb2, err := ck.DecodeBlock(encB(nb), srih)
			if err != nil {
				return err
			}
			var wg sync.WaitGroup
			var herr, berr error
			start := make(chan struct{})
			wg.Add(2)
			go func() { defer wg.Done(); <-start; berr = feed(raw) }()
			go func() { defer wg.Done(); <-start; spin(r.Delay * 4); herr = n.BC.AddHeaders(&nb2.Header) }()
			close(start)
			wg.Wait()
			o.Units(2)
			if n.BC.BlockHeight() < idx {
				// the header won: block idx is refused by design (its successor's PrevStateRoot does not match) and the
				// height is occupied by the bad header for good; the case ends here
				if berr == nil {
					return fmt.Errorf("block %d reported as added but the height is %d", idx, n.BC.BlockHeight())
				}
				o.Label("badroot/header-won-block-refused")
				return nil
			}
			aerr := n.BC.AddBlock(nb2)
			if aerr == nil || n.BC.BlockHeight() > idx {
				return fmt.Errorf("block %d with PrevStateRoot %s was accepted (AddBlock: %v; header offered concurrently with block %d: AddHeaders %v, AddBlock %v); the local state root of %d is %s",
					idx+1, nb2.PrevStateRoot.StringLE(), aerr, idx, herr, berr, idx, n.BC.GetStateModule().CurrentLocalStateRoot().StringLE())
			}
			if herr == nil && n.BC.HeaderHeight() > idx {
				// the bad header got recorded before the state of idx existed; nothing more can be added on top
				o.Label("badroot/bad-header-recorded")
				return nil
			}
			o.Label("badroot/refused")
		default:
			if err := feed(raw); err != nil {
				return fmt.Errorf("block %d refused: %v", idx, err)
			}
		}
		if n.BC.BlockHeight() != idx || n.BC.CurrentBlockHash() != blk.Hash() {
			return fmt.Errorf("after round %d (%s): node at height %d tip %s, reference at %d tip %s", i, r.Kind, n.BC.BlockHeight(), n.BC.CurrentBlockHash().StringLE(), idx, blk.Hash().StringLE())
		}
		if n.BC.GetStateModule().CurrentLocalStateRoot() != b.N.BC.GetStateModule().CurrentLocalStateRoot() {
			return fmt.Errorf("after round %d (%s): state root of block %d differs from the reference", i, r.Kind, idx)
		}
	}
	if d := ck.Diff(ck.FullDump(b.N.BC, nil), ck.FullDump(n.BC, nil)); d != "" {
		return fmt.Errorf("final state differs from the reference: %s", d)
	}
	if !bytes.Equal(n.BC.CurrentBlockHash().BytesBE(), b.N.BC.CurrentBlockHash().BytesBE()) {
		return fmt.Errorf("final tips differ")
	}
	o.NonTrivial()
	return nil
}

func init() {
	vt.Register("concurrent", 0.3, genConcCase, checkConcCase)
}
