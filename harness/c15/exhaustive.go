package c15

import (
	"fmt"
	"sync"

	"github.com/nspcc-dev/neo-go/pkg/smartcontract/callflag"
	"pgregory.net/rapid"
	"verifharness/vt"
)

// The exhaustively enumerated sub-domain (thorough tier): one signer (account k0), chains of depth <= 2 with all
// flags, condition trees of at most 2 levels over a reduced leaf alphabet.
//
//	chains   : [] ; one hop from {call A, call C, call D, dynamic script 0, the entry script's own bytes as a dynamic
//	           script, native->A, native->C, native->D};
//	           two such hops (no native hop below a dynamic script); CheckWitness leaf everywhere, native GAS leaf for depth <= 1
//	signers  : 11 rule-less scope configurations + {CalledByEntry bit off/on} x {[Allow T], [Deny T, Allow true]} x T
//	           T: leaf | Not(leaf) | And(leaf, leaf) | Or(leaf, leaf) over 11 leaves
//	accounts : the signer (hash), the signer (public key), a non-signer, the calling script's own hash
type exSpace struct {
	chains  []exChain
	signers []Signer
}

type exChain struct {
	hops []Hop
	leaf int
}

const exAccounts = 4

var (
	exOnce sync.Once
	exSp   *exSpace
)

func exLeaves() []Cond {
	return []Cond{
		{T: "bool", B: true}, {T: "bool", B: false},
		{T: "hash", H: RefA}, {T: "hash", H: RefC},
		{T: "group", G: G1}, {T: "group", G: G2},
		{T: "entry"},
		{T: "byhash", H: RefA}, {T: "byhash", H: RefEntry}, {T: "byhash", H: RefGAS},
		{T: "bygroup", G: G1},
	}
}

func exTrees() []Cond {
	ls := exLeaves()
	var out []Cond
	out = append(out, ls...)
	for _, l := range ls {
		out = append(out, Cond{T: "not", Sub: []Cond{l}})
	}
	for _, op := range []string{"and", "or"} {
		for _, a := range ls {
			for _, b := range ls {
				out = append(out, Cond{T: op, Sub: []Cond{a, b}})
			}
		}
	}
	return out
}

func exHops() []Hop {
	all := int(callflag.All)
	return []Hop{
		{Kind: HopCall, Target: RefA, Flags: all}, {Kind: HopCall, Target: RefC, Flags: all}, {Kind: HopCall, Target: RefD, Flags: all},
		{Kind: HopDyn, Target: 0, Flags: all},
		{Kind: HopSelf, Flags: all},
		{Kind: HopNative, Target: RefA, Flags: all}, {Kind: HopNative, Target: RefC, Flags: all}, {Kind: HopNative, Target: RefD, Flags: all},
	}
}

func exhaustiveSpace() *exSpace {
	exOnce.Do(func() {
		s := &exSpace{}
		hs := exHops()
		all2 := int(callflag.All)
		s.chains = append(s.chains, exChain{}, exChain{leaf: LeafGas})
		for _, a := range hs {
			s.chains = append(s.chains, exChain{hops: []Hop{a}})
			if a.Kind != HopDyn && a.Kind != HopSelf {
				s.chains = append(s.chains, exChain{hops: []Hop{a}, leaf: LeafGas})
			}
		}
		for _, a := range hs {
			for _, b := range hs {
				if (a.Kind == HopDyn || a.Kind == HopSelf) && b.Kind == HopNative {
					continue
				}
				s.chains = append(s.chains, exChain{hops: []Hop{a, b}})
			}
			if a.Kind == HopCall || a.Kind == HopNative {
				s.chains = append(s.chains, exChain{hops: []Hop{a, {Kind: HopReward, Flags: all2}}})
			}
		}
		k := RefK0
		s.signers = []Signer{
			{Acct: k, Scope: 0},
			{Acct: k, Scope: scGlobal},
			{Acct: k, Scope: scCalledByEntry},
			{Acct: k, Scope: scContracts, Contracts: []int{RefA}},
			{Acct: k, Scope: scContracts, Contracts: []int{RefC, RefEntry}},
			{Acct: k, Scope: scContracts, Contracts: []int{RefGAS}},
			{Acct: k, Scope: scGroups, Groups: []int{G1}},
			{Acct: k, Scope: scGroups, Groups: []int{G2}},
			{Acct: k, Scope: scCalledByEntry | scContracts, Contracts: []int{RefC}},
			{Acct: k, Scope: scCalledByEntry | scGroups, Groups: []int{G2}},
			{Acct: k, Scope: scContracts | scGroups, Contracts: []int{RefD}, Groups: []int{G1}},
		}
		for _, extra := range []int{0, scCalledByEntry} {
			for _, t := range exTrees() {
				s.signers = append(s.signers,
					Signer{Acct: k, Scope: scRules | extra, Rules: []Rule{{Allow: true, Cond: t}}},
					Signer{Acct: k, Scope: scRules | extra, Rules: []Rule{{Allow: false, Cond: t}, {Allow: true, Cond: Cond{T: "bool", B: true}}}})
			}
		}
		exSp = s
	})
	return exSp
}

func (s *exSpace) size() int { return len(s.chains) * len(s.signers) * exAccounts }

// cell decodes an index of the enumerated space into a case.
func (s *exSpace) cell(idx int) (Case, error) {
	if idx < 0 || idx >= s.size() {
		return Case{}, fmt.Errorf("index %d outside the enumerated space of %d cells", idx, s.size())
	}
	a := idx % exAccounts
	idx /= exAccounts
	sg := s.signers[idx%len(s.signers)]
	ch := s.chains[idx/len(s.signers)]
	c := Case{Signers: []Signer{sg}, Hops: append([]Hop{}, ch.hops...), Leaf: ch.leaf}
	switch a {
	case 0:
		c.Acct = Acct{Ref: RefK0}
	case 1:
		c.Acct = Acct{Ref: RefK0, Pub: true}
		if ch.leaf == LeafGas { // GAS.transfer takes a 20-byte account: an account nobody has instead
			c.Acct = Acct{Ref: RefUnknown}
		}
	case 2:
		c.Acct = Acct{Ref: RefK1}
	case 3: // the calling script of the checking context
		n := len(ch.hops)
		switch {
		case ch.leaf == LeafGas:
			c.Acct = Acct{Ref: posRef(ch.hops, n)}
		case n == 0:
			c.Acct = Acct{Ref: RefZero}
		case ch.hops[n-1].Kind == HopNative || ch.hops[n-1].Kind == HopReward:
			c.Acct = Acct{Ref: RefGAS}
		default:
			c.Acct = Acct{Ref: posRef(ch.hops, n-1)}
		}
	}
	return c, nil
}

// ExCase is a cell of the enumerated space, named by its index.
type ExCase struct {
	Idx int `json:"idx"`
}

// genExhaustive samples the enumerated space. rapid's integer generators favour small values, which would put three
// quarters of the samples on the first chain; the draw is therefore passed through a fixed 64-bit mixer (splitmix64
// finaliser) before it is reduced to an index. The case stores the index itself.
func genExhaustive(t *rapid.T) ExCase {
	z := rapid.Uint64().Draw(t, "u") + 0x9e3779b97f4a7c15
	z = (z ^ (z >> 30)) * 0xbf58476d1ce4e5b9
	z = (z ^ (z >> 27)) * 0x94d049bb133111eb
	z ^= z >> 31
	return ExCase{Idx: int(z % uint64(exhaustiveSpace().size()))}
}

func checkExhaustive(c ExCase, v *vt.Obs) error {
	o := &cls{}
	err := evalExhaustive(c, o)
	o.apply(v)
	return err
}

func evalExhaustive(c ExCase, o *cls) error {
	cell, err := exhaustiveSpace().cell(c.Idx)
	if err != nil {
		return err
	}
	if err := evalCell(cell, o, true); err != nil {
		return fmt.Errorf("enumerated cell %d: %v", c.Idx, err)
	}
	return nil
}

func init() {
	vt.Register("exhaustive", 0.5, genExhaustive, checkExhaustive)
}
