package c15

import (
	"errors"
	"fmt"

	"github.com/nspcc-dev/neo-go/pkg/core/transaction"
	"github.com/nspcc-dev/neo-go/pkg/crypto/keys"
	"github.com/nspcc-dev/neo-go/pkg/io"
	"github.com/nspcc-dev/neo-go/pkg/util"
	"pgregory.net/rapid"
	"verifharness/vt"
)

// KnownZeroCaller is the key of the finding "CalledByContract(00..00) matches where there is no calling script".
const KnownZeroCaller = "calledbycontract-zero-matches-no-caller"

// StubCtx is a stub transaction.MatchContext as data.
type StubCtx struct {
	Cur           int   `json:"cur"`     // symbolic hash reference
	Calling       int   `json:"calling"` // symbolic hash reference, -1: no calling script (the VM reports 00..00)
	CurGroups     []int `json:"cur_groups,omitempty"`
	CallingGroups []int `json:"calling_groups,omitempty"`
	Entry         bool  `json:"entry"`
	CurErr        bool  `json:"cur_err,omitempty"`     // CurrentScriptHasGroup fails (e.g. no ReadStates)
	CallingErr    bool  `json:"calling_err,omitempty"` // CallingScriptHasGroup fails
}

// MatchCase is one (condition tree, stub context) pair.
type MatchCase struct {
	Cond Cond    `json:"cond"`
	Ctx  StubCtx `json:"ctx"`
}

type stub struct {
	w           *world
	c           StubCtx
	curCalls    int
	callerCalls int
}

var errStub = errors.New("stub: groups unavailable")

func (s *stub) GetCallingScriptHash() util.Uint160 {
	if s.c.Calling < 0 {
		return util.Uint160{}
	}
	return s.w.resolve(s.c.Calling, stubEntry)
}
func (s *stub) GetCurrentScriptHash() util.Uint160 { return s.w.resolve(s.c.Cur, stubEntry) }
func (s *stub) IsCalledByEntry() bool              { return s.c.Entry }
func (s *stub) has(list []int, k *keys.PublicKey) bool {
	for _, g := range list {
		if s.w.groupKeys[g].Equal(k) {
			return true
		}
	}
	return false
}
func (s *stub) CallingScriptHasGroup(k *keys.PublicKey) (bool, error) {
	s.callerCalls++
	if s.c.CallingErr {
		return false, errStub
	}
	return s.has(s.c.CallingGroups, k), nil
}
func (s *stub) CurrentScriptHasGroup(k *keys.PublicKey) (bool, error) {
	s.curCalls++
	if s.c.CurErr {
		return false, errStub
	}
	return s.has(s.c.CurGroups, k), nil
}

var stubEntry = util.Uint160{0xe1, 0xe2, 0xe3}

func genMatch(t *rapid.T) MatchCase {
	var c MatchCase
	levels := rapid.SampledFrom([]int{1, 2, 2, 3, 3, 3}).Draw(t, "levels")
	c.Cond = genCond(t, levels, biasNone)
	if c.Cond.T != "not" && c.Cond.T != "and" && c.Cond.T != "or" && levels > 1 { // favour compound roots
		c.Cond = Cond{T: rapid.SampledFrom([]string{"and", "or"}).Draw(t, "root"), Sub: []Cond{c.Cond, genCond(t, levels-1, biasNone)}}
	}
	c.Ctx.Cur = rapid.SampledFrom(hashLeafRefs).Draw(t, "cur")
	c.Ctx.Calling = rapid.SampledFrom(append([]int{-1, -1}, hashLeafRefs...)).Draw(t, "calling")
	c.Ctx.CurGroups = genSubset(t, []int{G1, G2, GOther}, "cg")
	c.Ctx.CallingGroups = genSubset(t, []int{G1, G2, GOther}, "kg")
	c.Ctx.Entry = rapid.Bool().Draw(t, "entry")
	c.Ctx.CurErr = rapid.IntRange(0, 5).Draw(t, "cerr") == 0
	c.Ctx.CallingErr = rapid.IntRange(0, 5).Draw(t, "kerr") == 0
	return c
}

func mask(gs []int) uint8 {
	var m uint8
	for _, g := range gs {
		m |= 1 << g
	}
	return m
}

// containsByHashZero reports whether the tree has a CalledByContract(00..00) leaf.
func containsByHashZero(c Cond) bool {
	if c.T == "byhash" && c.H == RefZero {
		return true
	}
	for _, s := range c.Sub {
		if containsByHashZero(s) {
			return true
		}
	}
	return false
}

func checkMatch(c MatchCase, o *vt.Obs) error {
	w, err := getWorld()
	if err != nil {
		return fmt.Errorf("setup: %v", err)
	}
	if err := validCond(c.Cond); err != nil {
		return err
	}
	if condLevels(c.Cond) > transaction.MaxConditionNesting {
		return fmt.Errorf("malformed case: %d levels", condLevels(c.Cond))
	}
	for _, r := range []int{c.Ctx.Cur, c.Ctx.Calling} {
		if r < -1 || r >= NRefs {
			return fmt.Errorf("malformed case: bad hash reference")
		}
	}
	if c.Ctx.Cur < 0 {
		return fmt.Errorf("malformed case: no current script")
	}
	if c.Ctx.Calling < 0 && containsByHashZero(c.Cond) && vt.Known(KnownZeroCaller) {
		o.Excluded()
		return nil
	}
	e := env{cur: w.resolve(c.Ctx.Cur, stubEntry), hasCalling: c.Ctx.Calling >= 0, byEntry: c.Ctx.Entry,
		curGroups: mask(c.Ctx.CurGroups), callingGroups: mask(c.Ctx.CallingGroups),
		curGroupsErr: c.Ctx.CurErr, callingGrpsErr: c.Ctx.CallingErr,
		resolve: func(r int) util.Uint160 { return w.resolve(r, stubEntry) }}
	if e.hasCalling {
		e.calling = w.resolve(c.Ctx.Calling, stubEntry)
	}
	want := match(c.Cond, e)

	// The condition under test is the one a decoder produces from the wire form.
	built := w.realCond(c.Cond, stubEntry)
	bw := io.NewBufBinWriter()
	built.EncodeBinary(bw.BinWriter)
	if bw.Err != nil {
		return fmt.Errorf("condition does not encode: %v", bw.Err)
	}
	br := io.NewBinReaderFromBuf(bw.Bytes())
	decoded := transaction.DecodeBinaryCondition(br)
	if br.Err != nil {
		return fmt.Errorf("condition with %d levels is not accepted by the decoder: %v", condLevels(c.Cond), br.Err)
	}
	for i, cond := range []transaction.WitnessCondition{built, decoded} {
		name := [...]string{"built", "decoded"}[i]
		st := &stub{w: w, c: c.Ctx}
		res, err := cond.Match(st)
		got := yes(res)
		if err != nil {
			got = vFault
			if res {
				return fmt.Errorf("%s condition: Match returned true together with an error (%v)", name, err)
			}
		}
		if got != want {
			return fmt.Errorf("%s condition %+v over context %+v: Match = (%v, %v), specification %s", name, c.Cond, c.Ctx, res, err, want)
		}
	}
	o.Units(2)
	o.Labelf("levels/%d", condLevels(c.Cond))
	o.Label("root/" + c.Cond.T)
	o.Label("outcome/" + want.String())
	if hasNot(c.Cond) {
		o.Label("has-not")
	}
	if c.Ctx.Calling < 0 {
		o.Label("ctx/no-caller")
	}
	if c.Ctx.CurErr || c.Ctx.CallingErr {
		o.Label("ctx/group-error")
	}
	// Non-trivial: a compound tree whose value is not already fixed by its Boolean leaves alone, i.e. it depends on
	// the context: flipping the entry relation, the caller or the readability of groups changes (or could change) it.
	if condLevels(c.Cond) >= 2 && dependsOnContext(c.Cond) {
		o.NonTrivial()
	}
	return nil
}

func dependsOnContext(c Cond) bool {
	switch c.T {
	case "bool":
		return false
	case "not", "and", "or":
		for _, s := range c.Sub {
			if dependsOnContext(s) {
				return true
			}
		}
		return false
	}
	return true
}

func init() {
	vt.Register("match", 1.0, genMatch, checkMatch)
}
