package c15

import (
	"fmt"

	"github.com/nspcc-dev/neo-go/pkg/core/native/nativehashes"
	"github.com/nspcc-dev/neo-go/pkg/core/transaction"
	"github.com/nspcc-dev/neo-go/pkg/io"
	"github.com/nspcc-dev/neo-go/pkg/smartcontract/callflag"
	"github.com/nspcc-dev/neo-go/pkg/util"
)

// ---- case data ------------------------------------------------------------------------------------

// Cond is a witness condition tree (plain data).
type Cond struct {
	T   string `json:"t"`             // bool not and or hash group entry byhash bygroup
	B   bool   `json:"b,omitempty"`   // bool
	H   int    `json:"h,omitempty"`   // hash / byhash: symbolic hash reference
	G   int    `json:"g,omitempty"`   // group / bygroup: group index
	Sub []Cond `json:"sub,omitempty"` // not (1), and / or (>= 1)
}

// Rule is one witness rule.
type Rule struct {
	Allow bool `json:"allow"`
	Cond  Cond `json:"cond"`
}

// Signer is one transaction signer.
type Signer struct {
	Acct      int    `json:"acct"`  // symbolic hash reference of the account
	Scope     int    `json:"scope"` // the scope byte
	Contracts []int  `json:"contracts,omitempty"`
	Groups    []int  `json:"groups,omitempty"`
	Rules     []Rule `json:"rules,omitempty"`
}

// Mut is a change a contract makes to its own on-chain state in the frame reached by a hop, before it goes on.
type Mut struct {
	Op     string `json:"op"`               // update | destroy
	Groups []int  `json:"groups,omitempty"` // update: the manifest groups after the update
}

// Hop is one step of the call chain.
type Hop struct {
	Kind   int  `json:"kind"`          // HopCall | HopDyn | HopNative | HopSelf | HopReward
	Target int  `json:"target"`        // contract index 0..3 (call, native) or dynamic script variant 0..1 (dyn); unused for self
	Flags  int  `json:"flags"`         // requested call flags (call, dyn, self); native hops always run with All
	Mut    *Mut `json:"mut,omitempty"` // call / native hops only
}

// Acct is the checked account.
type Acct struct {
	Ref int  `json:"ref"`
	Pub bool `json:"pub,omitempty"` // 33-byte public key form (only for key references)
}

// Case is one cell.
type Case struct {
	Signers []Signer `json:"signers"`
	Hops    []Hop    `json:"hops"`
	Leaf    int      `json:"leaf"`
	Acct    Acct     `json:"acct"`
}

// ---- the chain context, tracked by the harness itself ------------------------------------------------

// pos is what the specification needs to know about one execution context of the chain.
type pos struct {
	cur        util.Uint160
	calling    util.Uint160
	hasCalling bool
	level      int // number of contexts between this one and the entry script (entry = 0)
	flags      callflag.CallFlag
}

func (p pos) byEntry() bool { return p.level <= 1 }

// positions derives the context of every chain position: index 0 is the entry script, index i the context
// reached by hop i; the returned leaf is the context in which the witness is finally checked.
//
// groups is the harness' own bookkeeping of the manifest groups every contract has at the moment of the check, i.e.
// after the updates / destructions performed on the way down.
func (w *world) positions(c Case, entry util.Uint160) ([]pos, pos, map[util.Uint160]uint8, error) {
	bad := func(f string, a ...any) ([]pos, pos, map[util.Uint160]uint8, error) {
		return nil, pos{}, nil, fmt.Errorf(f, a...)
	}
	groups := map[util.Uint160]uint8{}
	for h, m := range w.groupsOf {
		groups[h] = m
	}
	destroyed := map[util.Uint160]bool{}
	anyDestroyed := false
	rewarded := map[util.Uint160]bool{}
	var chain []pos
	p := pos{cur: entry, flags: callflag.All}
	chain = append(chain, p)
	for i, h := range c.Hops {
		var n pos
		if (h.Kind == HopCall || h.Kind == HopNative) && h.Target >= 0 && h.Target <= 3 && destroyed[w.contracts[h.Target]] {
			return bad("hop %d: chain not executable (target was destroyed)", i)
		}
		if h.Kind == HopNative && anyDestroyed {
			return bad("hop %d: native hops after a destruction are outside the domain", i)
		}
		if h.Mut != nil && h.Kind != HopCall && h.Kind != HopNative {
			return bad("hop %d: only contract frames can update / destroy themselves", i)
		}
		switch h.Kind {
		case HopSelf:
			if !p.flags.Has(callflag.AllowCall) {
				return bad("hop %d: chain not executable (System.Runtime.LoadScript needs AllowCall)", i)
			}
			// The entry script's bytes loaded as a dynamic script: same script hash as the entry script, but a frame of
			// its own, one level deeper, read-only.
			n = pos{cur: entry, calling: p.cur, hasCalling: true, level: p.level + 1,
				flags: p.flags & callflag.CallFlag(h.Flags) & callflag.ReadOnly}
		case HopCall:
			if h.Target < 0 || h.Target > 3 {
				return bad("hop %d: bad target", i)
			}
			if !p.flags.Has(callflag.ReadStates | callflag.AllowCall) {
				return bad("hop %d: chain not executable (System.Contract.Call needs ReadStates|AllowCall)", i)
			}
			n = pos{cur: w.contracts[h.Target], calling: p.cur, hasCalling: true, level: p.level + 1, flags: p.flags & callflag.CallFlag(h.Flags)}
		case HopDyn:
			if h.Target < 0 || h.Target > 1 {
				return bad("hop %d: bad target", i)
			}
			if !p.flags.Has(callflag.AllowCall) {
				return bad("hop %d: chain not executable (System.Runtime.LoadScript needs AllowCall)", i)
			}
			// A dynamic script is limited to read-only actions irrespective of the requested flags.
			n = pos{cur: w.dynHash[h.Target], calling: p.cur, hasCalling: true, level: p.level + 1,
				flags: p.flags & callflag.CallFlag(h.Flags) & callflag.ReadOnly}
		case HopNative:
			if h.Target < 0 || h.Target > 3 {
				return bad("hop %d: bad target", i)
			}
			if p.flags != callflag.All {
				return bad("hop %d: chain not executable (GAS.transfer + callback need All)", i)
			}
			// The native contract is a contract of its own: it is called by the previous context and it calls the
			// payment callback.
			n = pos{cur: w.contracts[h.Target], calling: nativehashes.GasToken, hasCalling: true, level: p.level + 2, flags: callflag.All}
		case HopReward:
			isContract := false
			for _, ch := range w.contracts {
				if ch == p.cur {
					isContract = true
				}
			}
			if !isContract || p.cur == entry || p.flags != callflag.All {
				return bad("hop %d: chain not executable (the reward hop is made by a deployed contract holding All)", i)
			}
			if anyDestroyed || rewarded[p.cur] {
				return bad("hop %d: the reward of a contract is paid once per execution, and not after a destruction", i)
			}
			rewarded[p.cur] = true
			// The contract itself is re-entered: called by GAS (explicit calling hash), two contexts further from the
			// entry script (NEO's context and the callback's).
			n = pos{cur: p.cur, calling: nativehashes.GasToken, hasCalling: true, level: p.level + 2, flags: callflag.All}
		default:
			return bad("hop %d: bad kind", i)
		}
		if h.Mut != nil {
			if n.flags != callflag.All {
				return bad("hop %d: chain not executable (ContractManagement.update / destroy need All)", i)
			}
			switch h.Mut.Op {
			case MutUpdate:
				var m uint8
				for _, g := range h.Mut.Groups {
					if g < 0 || g >= NGroups {
						return bad("hop %d: bad group", i)
					}
					m |= 1 << g
				}
				groups[n.cur] = m
			case MutDestroy:
				delete(groups, n.cur) // a destroyed contract has no manifest, hence no groups
				destroyed[n.cur] = true
				anyDestroyed = true
			default:
				return bad("hop %d: bad mutation %q", i, h.Mut.Op)
			}
		}
		chain = append(chain, n)
		p = n
	}
	leaf := p
	if c.Leaf == LeafGas {
		if p.flags != callflag.All {
			return bad("leaf: chain not executable (GAS.transfer needs All)")
		}
		if anyDestroyed {
			return bad("leaf: native leaf after a destruction is outside the domain")
		}
		leaf = pos{cur: nativehashes.GasToken, calling: p.cur, hasCalling: true, level: p.level + 1, flags: callflag.All}
	}
	return chain, leaf, groups, nil
}

// ---- the specification ------------------------------------------------------------------------------

// verdict of the specification.
type verdict int

const (
	vNo    verdict = iota // the witness check answers false
	vYes                  // the witness check answers true
	vFault                // group membership had to be consulted in a context without ReadStates: no answer, the execution faults
)

func (v verdict) String() string { return [...]string{"false", "true", "FAULT"}[v] }

// env is the information a condition / scope is evaluated over.
type env struct {
	cur, calling   util.Uint160
	hasCalling     bool
	byEntry        bool
	curGroups      uint8 // manifest groups of the current contract (bitmask), 0 for non-contracts
	callingGroups  uint8
	curGroupsErr   bool // the groups cannot be read (context without ReadStates / stub error)
	callingGrpsErr bool
	resolve        func(ref int) util.Uint160
}

func (w *world) envOf(p pos, entry util.Uint160, groups map[util.Uint160]uint8) env {
	e := env{cur: p.cur, calling: p.calling, hasCalling: p.hasCalling, byEntry: p.byEntry(),
		resolve: func(r int) util.Uint160 { return w.resolve(r, entry) }}
	e.curGroups = groups[p.cur]
	if p.hasCalling {
		e.callingGroups = groups[p.calling]
	}
	if !p.flags.Has(callflag.ReadStates) {
		e.curGroupsErr, e.callingGrpsErr = true, true
	}
	return e
}

func group(mask uint8, unreadable bool, g int) verdict {
	if unreadable {
		return vFault
	}
	if mask&(1<<g) != 0 {
		return vYes
	}
	return vNo
}

func yes(b bool) verdict {
	if b {
		return vYes
	}
	return vNo
}

// match is the meaning of a condition: sub-conditions are evaluated left to right, And stops at the first false,
// Or at the first true; a condition whose value cannot be determined makes the whole evaluation fail.
// underNot reports whether the value was produced through a Not.
func match(c Cond, e env) verdict {
	switch c.T {
	case "bool":
		return yes(c.B)
	case "not":
		switch match(c.Sub[0], e) {
		case vYes:
			return vNo
		case vNo:
			return vYes
		}
		return vFault
	case "and":
		for _, s := range c.Sub {
			if v := match(s, e); v != vYes {
				return v
			}
		}
		return vYes
	case "or":
		for _, s := range c.Sub {
			if v := match(s, e); v != vNo {
				return v
			}
		}
		return vNo
	case "hash":
		return yes(e.cur == e.resolve(c.H))
	case "group":
		return group(e.curGroups, e.curGroupsErr, c.G)
	case "entry":
		return yes(e.byEntry)
	case "byhash":
		return yes(e.hasCalling && e.calling == e.resolve(c.H))
	case "bygroup":
		return group(e.callingGroups, e.callingGrpsErr, c.G)
	}
	panic("bad condition type " + c.T)
}

func hasNot(c Cond) bool {
	if c.T == "not" {
		return true
	}
	for _, s := range c.Sub {
		if hasNot(s) {
			return true
		}
	}
	return false
}

const (
	scCalledByEntry = 0x01
	scContracts     = 0x10
	scGroups        = 0x20
	scRules         = 0x40
	scGlobal        = 0x80
)

// why describes how allowed() reached its verdict (for labels and the non-trivial rule).
type why struct {
	by          string // own-call | non-signer | global | entry | contracts | groups | rule-allow | rule-deny | nothing | fault
	underNot    bool   // the deciding rule's condition contains a Not
	emptyGroups bool   // the CustomGroups step was reached with an empty group list in a context without ReadStates
}

// allowed is the specification: does a check of acct's witness succeed in the context e?
func allowed(signers []Signer, acct util.Uint160, e env) (verdict, why) {
	// A contract always witnesses calls it makes itself.
	if e.hasCalling && acct == e.calling {
		return vYes, why{by: "own-call"}
	}
	var s *Signer
	for i := range signers {
		if e.resolve(signers[i].Acct) == acct {
			s = &signers[i]
			break
		}
	}
	if s == nil { // an account that did not sign never passes
		return vNo, why{by: "non-signer"}
	}
	if s.Scope == scGlobal {
		return vYes, why{by: "global"}
	}
	var y why
	if s.Scope&scCalledByEntry != 0 && e.byEntry {
		return vYes, why{by: "entry"}
	}
	if s.Scope&scContracts != 0 {
		for _, r := range s.Contracts {
			if e.resolve(r) == e.cur {
				return vYes, why{by: "contracts"}
			}
		}
	}
	if s.Scope&scGroups != 0 {
		if len(s.Groups) == 0 && e.curGroupsErr {
			y.emptyGroups = true
		}
		for _, g := range s.Groups {
			switch group(e.curGroups, e.curGroupsErr, g) {
			case vYes:
				return vYes, why{by: "groups"}
			case vFault:
				return vFault, why{by: "fault"}
			}
		}
	}
	if s.Scope&scRules != 0 {
		for _, r := range s.Rules {
			switch match(r.Cond, e) {
			case vYes: // the first rule whose condition matches decides
				y.underNot = hasNot(r.Cond)
				if r.Allow {
					y.by = "rule-allow"
					return vYes, y
				}
				y.by = "rule-deny"
				return vNo, y
			case vFault:
				y.by = "fault"
				return vFault, y
			}
		}
	}
	y.by = "nothing"
	return vNo, y
}

// ---- conversion to the real types -------------------------------------------------------------------

func (w *world) realCond(c Cond, entry util.Uint160) transaction.WitnessCondition {
	switch c.T {
	case "bool":
		v := transaction.ConditionBoolean(c.B)
		return &v
	case "not":
		return &transaction.ConditionNot{Condition: w.realCond(c.Sub[0], entry)}
	case "and":
		v := make(transaction.ConditionAnd, len(c.Sub))
		for i := range c.Sub {
			v[i] = w.realCond(c.Sub[i], entry)
		}
		return &v
	case "or":
		v := make(transaction.ConditionOr, len(c.Sub))
		for i := range c.Sub {
			v[i] = w.realCond(c.Sub[i], entry)
		}
		return &v
	case "hash":
		v := transaction.ConditionScriptHash(w.resolve(c.H, entry))
		return &v
	case "group":
		v := transaction.ConditionGroup(*w.groupKeys[c.G])
		return &v
	case "entry":
		return transaction.ConditionCalledByEntry{}
	case "byhash":
		v := transaction.ConditionCalledByContract(w.resolve(c.H, entry))
		return &v
	case "bygroup":
		v := transaction.ConditionCalledByGroup(*w.groupKeys[c.G])
		return &v
	}
	panic("bad condition type " + c.T)
}

// realSigners builds the transaction signers and passes each through its wire form, so that only signer
// configurations the decoder accepts are ever evaluated.
func (w *world) realSigners(ss []Signer, entry util.Uint160) ([]transaction.Signer, error) {
	out := make([]transaction.Signer, len(ss))
	for i, s := range ss {
		r := transaction.Signer{Account: w.resolve(s.Acct, entry), Scopes: transaction.WitnessScope(s.Scope)}
		if s.Scope&scContracts != 0 {
			r.AllowedContracts = []util.Uint160{}
			for _, c := range s.Contracts {
				r.AllowedContracts = append(r.AllowedContracts, w.resolve(c, entry))
			}
		}
		if s.Scope&scGroups != 0 {
			for _, g := range s.Groups {
				r.AllowedGroups = append(r.AllowedGroups, w.groupKeys[g])
			}
		}
		if s.Scope&scRules != 0 {
			for _, ru := range s.Rules {
				a := transaction.WitnessDeny
				if ru.Allow {
					a = transaction.WitnessAllow
				}
				r.Rules = append(r.Rules, transaction.WitnessRule{Action: a, Condition: w.realCond(ru.Cond, entry)})
			}
		}
		bw := io.NewBufBinWriter()
		r.EncodeBinary(bw.BinWriter)
		if bw.Err != nil {
			return nil, fmt.Errorf("signer %d does not encode: %v", i, bw.Err)
		}
		br := io.NewBinReaderFromBuf(bw.Bytes())
		out[i].DecodeBinary(br)
		if br.Err != nil {
			return nil, fmt.Errorf("signer %d is not accepted by DecodeBinary: %v", i, br.Err)
		}
	}
	return out, nil
}
