// Package c15 checks property C15: witness scopes and witness rules are enforced exactly.
//
// A fixed chain (built once per process) carries four contracts A, B, C, D (A in group g1, B in g1 and g2, C in g2,
// D in no group). Every contract exposes
//
//	fwd(acct, path)                 -> bool   (the generic routine "body" below)
//	onNEP17Payment(from, amt, data) -> void   (data = [acct, path]; runs body and notifies "E"(result))
//
// body(acct, path): with an empty path it returns System.Runtime.CheckWitness(acct); otherwise it takes the first hop
// [kind, target, flags] off the path and
//
//	kind 0: System.Contract.Call(target, "fwd", flags, [acct, rest])
//	kind 1: System.Runtime.LoadScript(target = script bytes, flags, [acct, rest])   (the dynamic script is body itself)
//	kind 2: GAS.transfer(self, target, 0, [acct, rest])  -> GAS calls target.onNEP17Payment which continues the chain
//	kind 3: (leaf) GAS.transfer(acct, target, 0, null)    -> the native contract itself checks the witness of acct
//	kind 4: System.Runtime.LoadScript(the transaction's own script, flags, [acct, rest]): a dynamic frame whose script
//	        hash EQUALS the entry script hash although it is not the entry context
//	kind 5: (no new frame) [5, op, manifest]: the executing contract calls ContractManagement.update(null, manifest, null)
//	        (op 0) or ContractManagement.destroy() (op 1) on itself, then goes on with the rest of the path
//
// The entry script of a case is "if the stack is empty { push path, push acct }, body": loaded as a dynamic script it
// finds its arguments on the stack and skips its own literals.
package c15

import (
	"fmt"
	"sync"

	"github.com/nspcc-dev/neo-go/pkg/core"
	"github.com/nspcc-dev/neo-go/pkg/core/native/nativehashes"
	"github.com/nspcc-dev/neo-go/pkg/crypto/hash"
	"github.com/nspcc-dev/neo-go/pkg/crypto/keys"
	"github.com/nspcc-dev/neo-go/pkg/io"
	"github.com/nspcc-dev/neo-go/pkg/smartcontract/callflag"
	"github.com/nspcc-dev/neo-go/pkg/util"
	"github.com/nspcc-dev/neo-go/pkg/vm/emit"
	"github.com/nspcc-dev/neo-go/pkg/vm/opcode"
	"verifharness/asm"
	ck "verifharness/chainkit"
)

// Symbolic hash references used in cases (resolved by world.resolve).
const (
	RefA = iota
	RefB
	RefC
	RefD
	RefEntry   // hash of the entry script of the case
	RefDyn0    // hash of dynamic script variant 0
	RefDyn1    // hash of dynamic script variant 1
	RefGAS     // native GAS
	RefUnknown // a hash nothing has
	RefZero    // 00..00
	RefK0      // account (signature contract hash) of cast key 0
	RefK1
	RefK2
	NRefs
)

var refNames = [...]string{"A", "B", "C", "D", "entry", "dyn0", "dyn1", "GAS", "unknown", "zero", "k0", "k1", "k2"}

// Group indices.
const (
	G1 = iota
	G2
	GOther
	NGroups
)

// Hop kinds of a Case.
const (
	HopCall = iota
	HopDyn
	HopNative
	HopSelf // LoadScript of the entry script's own bytes
	// HopReward: the contract frame calls NEO.transfer(self, self, 0): NEO makes GAS mint the frame's pending reward and
	// GAS calls onNEP17Payment of the contract ON BEHALF OF NEO: the callback's calling script hash is GAS although
	// the context below it is NEO's (GAS has no context on the invocation stack).
	HopReward
)

// Kinds inside the path interpreted by body.
const (
	skCall = iota
	skDyn
	skNative
	skGasLeaf
	skSelf
	skMutate
	skReward
)

// Mutation ops.
const (
	MutUpdate  = "update"
	MutDestroy = "destroy"
)

// Leaf kinds.
const (
	LeafSyscall = iota // the last context executes System.Runtime.CheckWitness
	LeafGas            // the last context calls GAS.transfer(acct, k2, 0, null); native GAS checks the witness
)

type world struct {
	bc        *core.Blockchain
	contracts [4]util.Uint160
	groupKeys [NGroups]*keys.PublicKey
	// manifest groups of the deployed contracts, by the harness' own bookkeeping (bitmask over group indices)
	groupsOf map[util.Uint160]uint8
	// manifests[i][mask]: manifest JSON of contract i with exactly the groups of mask (for ContractManagement.update)
	manifests [4][1 << NGroups][]byte
	body      []byte
	dyn       [2][]byte
	dynHash   [2]util.Uint160
	unknown   util.Uint160
	keys      [3]ck.Key
}

var (
	theWorld  *world
	worldErr  error
	worldOnce sync.Once
)

func getWorld() (*world, error) {
	worldOnce.Do(func() { theWorld, worldErr = buildWorld() })
	return theWorld, worldErr
}

// emitBody assembles the generic routine (position independent).
func emitBody(b *asm.B) {
	u := b.Fresh("body")
	l := func(s string) string { return u + s }
	kind := func(k int64, label string) {
		b.Op(opcode.LDLOC0, opcode.PUSH0, opcode.PICKITEM).Int(k).Op(opcode.NUMEQUAL).Jmp(opcode.JMPIFL, l(label))
	}
	packArgs := func() { b.Op(opcode.LDARG1, opcode.LDARG0, opcode.PUSH2, opcode.PACK) } // [acct, rest]
	b.InitSlot(1, 2)
	b.Label(l("top"))
	b.Op(opcode.LDARG1, opcode.SIZE).Jmp(opcode.JMPIFL, l("more"))
	b.Op(opcode.LDARG0).Syscall("System.Runtime.CheckWitness").Op(opcode.RET)
	b.Label(l("more"))
	b.Op(opcode.LDARG1, opcode.PUSH0, opcode.PICKITEM, opcode.STLOC0)
	b.Op(opcode.LDARG1, opcode.PUSH0, opcode.REMOVE)
	kind(skCall, "call")
	kind(skDyn, "dyn")
	kind(skNative, "nat")
	kind(skGasLeaf, "gasleaf")
	kind(skSelf, "self")
	kind(skMutate, "mutate")
	kind(skReward, "reward")
	b.Op(opcode.ABORT)

	// reward: the rest of the path waits in the contract's storage for the callback of the GAS mint (its data is null)
	b.Label(l("reward"))
	packArgs()
	b.Op(opcode.PUSH1, opcode.PACK)
	b.Int(int64(callflag.All)).Str("serialize").Bytes(nativehashes.StdLib.BytesBE())
	b.Syscall("System.Contract.Call")
	b.Str("p").Syscall("System.Storage.GetContext").Syscall("System.Storage.Put")
	b.Op(opcode.PUSHNULL, opcode.PUSH0)
	b.Syscall("System.Runtime.GetExecutingScriptHash")
	b.Syscall("System.Runtime.GetExecutingScriptHash")
	b.Op(opcode.PUSH4, opcode.PACK)
	b.Int(int64(callflag.All)).Str("transfer").Bytes(nativehashes.NeoToken.BytesBE())
	b.Syscall("System.Contract.Call").Op(opcode.ASSERT)
	b.Op(opcode.PUSHNULL, opcode.RET) // the result travels in the "E" notification of the callback

	b.Label(l("self"))
	packArgs()
	b.Op(opcode.LDLOC0, opcode.PUSH2, opcode.PICKITEM)
	b.Syscall("System.Runtime.GetScriptContainer").Op(opcode.PUSH7, opcode.PICKITEM) // Transaction.Script
	b.Syscall("System.Runtime.LoadScript").Op(opcode.RET)

	b.Label(l("mutate"))
	b.Op(opcode.LDLOC0, opcode.PUSH1, opcode.PICKITEM).Jmp(opcode.JMPIFL, l("destroy"))
	b.Op(opcode.PUSHNULL)
	b.Op(opcode.LDLOC0, opcode.PUSH2, opcode.PICKITEM)
	b.Op(opcode.PUSHNULL, opcode.PUSH3, opcode.PACK) // [nef = null, manifest, data = null]
	b.Int(int64(callflag.All)).Str("update").Bytes(nativehashes.ContractManagement.BytesBE())
	b.Syscall("System.Contract.Call").Op(opcode.DROP) // a dynamic call of a void method leaves Null
	b.Jmp(opcode.JMPL, l("top"))
	b.Label(l("destroy"))
	b.Op(opcode.NEWARRAY0)
	b.Int(int64(callflag.All)).Str("destroy").Bytes(nativehashes.ContractManagement.BytesBE())
	b.Syscall("System.Contract.Call").Op(opcode.DROP) // a dynamic call of a void method leaves Null
	b.Jmp(opcode.JMPL, l("top"))

	b.Label(l("call"))
	packArgs()
	b.Op(opcode.LDLOC0, opcode.PUSH2, opcode.PICKITEM)
	b.Str("fwd")
	b.Op(opcode.LDLOC0, opcode.PUSH1, opcode.PICKITEM)
	b.Syscall("System.Contract.Call").Op(opcode.RET)

	b.Label(l("dyn"))
	packArgs()
	b.Op(opcode.LDLOC0, opcode.PUSH2, opcode.PICKITEM)
	b.Op(opcode.LDLOC0, opcode.PUSH1, opcode.PICKITEM)
	b.Syscall("System.Runtime.LoadScript").Op(opcode.RET)

	b.Label(l("nat"))
	packArgs() // data
	b.Op(opcode.PUSH0)
	b.Op(opcode.LDLOC0, opcode.PUSH1, opcode.PICKITEM)
	b.Syscall("System.Runtime.GetExecutingScriptHash")
	b.Op(opcode.PUSH4, opcode.PACK)
	b.Int(int64(callflag.All)).Str("transfer").Bytes(nativehashes.GasToken.BytesBE())
	b.Syscall("System.Contract.Call").Op(opcode.ASSERT)
	b.Op(opcode.PUSHNULL, opcode.RET) // the result travels in the "E" notification of the callback

	b.Label(l("gasleaf"))
	b.Op(opcode.PUSHNULL, opcode.PUSH0)
	b.Op(opcode.LDLOC0, opcode.PUSH1, opcode.PICKITEM)
	b.Op(opcode.LDARG0)
	b.Op(opcode.PUSH4, opcode.PACK)
	b.Int(int64(callflag.All)).Str("transfer").Bytes(nativehashes.GasToken.BytesBE())
	b.Syscall("System.Contract.Call").Op(opcode.RET)
}

func buildContract(name string, opts ...asm.ManifestOpt) (*asm.Contract, error) {
	b := asm.New()
	b.Label("fwd")
	emitBody(b)
	b.Label("onNEP17Payment")
	b.InitSlot(0, 3)
	b.Op(opcode.LDARG2, opcode.ISNULL).Jmp(opcode.JMPIFNOTL, "pay_run")
	// no data: a plain payment, or (no sender: a mint) the GAS reward of a HopReward whose path waits in the storage
	b.Op(opcode.LDARG0, opcode.ISNULL).Jmp(opcode.JMPIFNOTL, "pay_ret")
	b.Str("p").Syscall("System.Storage.GetContext").Syscall("System.Storage.Get")
	b.Op(opcode.DUP, opcode.ISNULL).Jmp(opcode.JMPIFL, "pay_drop")
	b.Str("p").Syscall("System.Storage.GetContext").Syscall("System.Storage.Delete")
	b.Op(opcode.PUSH1, opcode.PACK)
	b.Int(int64(callflag.All)).Str("deserialize").Bytes(nativehashes.StdLib.BytesBE())
	b.Syscall("System.Contract.Call")
	b.Op(opcode.DUP, opcode.PUSH1, opcode.PICKITEM, opcode.SWAP, opcode.PUSH0, opcode.PICKITEM)
	b.Jmp(opcode.CALLL, "fwd")
	b.Op(opcode.PUSH1, opcode.PACK).Str("E").Syscall("System.Runtime.Notify").Op(opcode.RET)
	b.Label("pay_drop")
	b.Op(opcode.DROP)
	b.Label("pay_ret")
	b.Op(opcode.RET)
	b.Label("pay_run")
	b.Op(opcode.LDARG2, opcode.PUSH1, opcode.PICKITEM, opcode.LDARG2, opcode.PUSH0, opcode.PICKITEM)
	b.Jmp(opcode.CALLL, "fwd")
	b.Op(opcode.PUSH1, opcode.PACK).Str("E").Syscall("System.Runtime.Notify").Op(opcode.RET)
	ms := []asm.MethodSpec{
		{Name: "fwd", Label: "fwd", Params: 2},
		{Name: "onNEP17Payment", Label: "onNEP17Payment", Params: 3, Void: true},
	}
	return asm.BuildContract(name, b, ms, opts...)
}

func buildWorld() (*world, error) {
	w := &world{groupsOf: map[util.Uint160]uint8{}}
	w.groupKeys = [NGroups]*keys.PublicKey{ck.Candidates[0].Pub, ck.Candidates[1].Pub, ck.Candidates[2].Pub}
	gk := [NGroups]ck.Key{ck.Candidates[0], ck.Candidates[1], ck.Candidates[2]}
	w.keys = [3]ck.Key{ck.Accounts[1], ck.Accounts[2], ck.Accounts[3]}
	w.unknown = util.Uint160{0xde, 0xad, 0xbe, 0xef, 1, 2, 3, 4, 5, 6, 7, 8, 9, 10, 11, 12, 13, 14, 15, 16}

	bb := asm.New()
	emitBody(bb)
	w.body = bb.Script()
	for i := range w.dyn {
		s := make([]byte, 0, len(w.body)+i)
		for j := 0; j < i; j++ {
			s = append(s, byte(opcode.NOP))
		}
		w.dyn[i] = append(s, w.body...)
		w.dynHash[i] = hash.Hash160(w.dyn[i])
	}

	b, err := ck.NewBuilder(ck.ChainCfg{Profile: "V1C1"})
	if err != nil {
		return nil, fmt.Errorf("builder: %v", err)
	}
	if _, err := b.Bootstrap(); err != nil {
		return nil, fmt.Errorf("bootstrap: %v", err)
	}
	deployer := 0
	sender := b.PartyHash(deployer)
	membership := [4][]int{{G1}, {G1, G2}, {G2}, {}}
	var spec ck.BlockSpec
	for i, name := range []string{"c15A", "c15B", "c15C", "c15D"} {
		plain, err := buildContract(name)
		if err != nil {
			return nil, err
		}
		var opts []asm.ManifestOpt
		var mask uint8
		for _, g := range membership[i] {
			opts = append(opts, ck.WithGroup(sender, gk[g], plain))
			mask |= 1 << g
		}
		c, err := buildContract(name, opts...)
		if err != nil {
			return nil, err
		}
		for m := 0; m < 1<<NGroups; m++ {
			var mo []asm.ManifestOpt
			for g := 0; g < NGroups; g++ {
				if m&(1<<g) != 0 {
					mo = append(mo, ck.WithGroup(sender, gk[g], plain))
				}
			}
			v, err := buildContract(name, mo...)
			if err != nil {
				return nil, err
			}
			w.manifests[i][m] = v.Manifest
		}
		w.contracts[i] = ck.ContractHash(sender, c)
		w.groupsOf[w.contracts[i]] = mask
		bw := io.NewBufBinWriter()
		emit.AppCall(bw.BinWriter, nativehashes.ContractManagement, "deploy", callflag.All, c.NEF, c.Manifest)
		emit.Opcodes(bw.BinWriter, opcode.DROP)
		spec.Txs = append(spec.Txs, ck.Action{Kind: "raw", From: deployer, V: bw.Bytes(), Nonce: uint32(1000 + i)})
	}
	spec.TimeD = 1000
	if _, _, err := b.BuildBlock(spec); err != nil {
		return nil, fmt.Errorf("deploy block: %v", err)
	}
	if len(b.Rejected) != 0 {
		return nil, fmt.Errorf("deploy transactions rejected: %v", b.Rejected)
	}
	// The contracts hold NEO: every later block accrues a GAS reward for them (HopReward pays it out).
	var neo ck.BlockSpec
	for i, h := range w.contracts {
		bw := io.NewBufBinWriter()
		emit.AppCall(bw.BinWriter, nativehashes.NeoToken, "transfer", callflag.All, sender, h, int64(100), nil)
		emit.Opcodes(bw.BinWriter, opcode.ASSERT)
		neo.Txs = append(neo.Txs, ck.Action{Kind: "raw", From: deployer, V: bw.Bytes(), Nonce: uint32(2000 + i)})
	}
	neo.TimeD = 1000
	if _, _, err := b.BuildBlock(neo); err != nil {
		return nil, fmt.Errorf("NEO block: %v", err)
	}
	if len(b.Rejected) != 0 {
		return nil, fmt.Errorf("NEO transfers rejected: %v", b.Rejected)
	}
	for i := 0; i < 2; i++ {
		if _, _, err := b.BuildBlock(ck.BlockSpec{TimeD: 1000}); err != nil {
			return nil, fmt.Errorf("empty block: %v", err)
		}
	}
	w.bc = b.N.BC
	for i, h := range w.contracts {
		cs := w.bc.GetContractState(h)
		if cs == nil {
			return nil, fmt.Errorf("contract %d (%s) was not deployed", i, h.StringLE())
		}
		if len(cs.Manifest.Groups) != len(membership[i]) {
			return nil, fmt.Errorf("contract %d has %d groups, expected %d", i, len(cs.Manifest.Groups), len(membership[i]))
		}
	}
	return w, nil
}

// intact verifies that the shared chain state still is what buildWorld made (test executions must not leak).
func (w *world) intact() error {
	for i, h := range w.contracts {
		cs := w.bc.GetContractState(h)
		if cs == nil {
			return fmt.Errorf("harness: contract %d disappeared from the shared chain", i)
		}
		var m uint8
		for _, g := range cs.Manifest.Groups {
			for j, k := range w.groupKeys {
				if k.Equal(g.PublicKey) {
					m |= 1 << j
				}
			}
		}
		if m != w.groupsOf[h] || cs.UpdateCounter != 0 {
			return fmt.Errorf("harness: contract %d of the shared chain changed (groups %b, updates %d)", i, m, cs.UpdateCounter)
		}
	}
	return nil
}

// resolve maps a symbolic reference to a hash (entry = hash of the case's entry script).
func (w *world) resolve(ref int, entry util.Uint160) util.Uint160 {
	switch ref {
	case RefA, RefB, RefC, RefD:
		return w.contracts[ref]
	case RefEntry:
		return entry
	case RefDyn0, RefDyn1:
		return w.dynHash[ref-RefDyn0]
	case RefGAS:
		return nativehashes.GasToken
	case RefUnknown:
		return w.unknown
	case RefZero:
		return util.Uint160{}
	case RefK0, RefK1, RefK2:
		return w.keys[ref-RefK0].Hash
	}
	panic(fmt.Sprintf("bad ref %d", ref))
}
