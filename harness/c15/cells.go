package c15

import (
	"fmt"
	"strings"

	"github.com/nspcc-dev/neo-go/pkg/core/transaction"
	"github.com/nspcc-dev/neo-go/pkg/crypto/hash"
	"github.com/nspcc-dev/neo-go/pkg/io"
	"github.com/nspcc-dev/neo-go/pkg/smartcontract/callflag"
	"github.com/nspcc-dev/neo-go/pkg/smartcontract/trigger"
	"github.com/nspcc-dev/neo-go/pkg/util"
	"github.com/nspcc-dev/neo-go/pkg/vm/emit"
	"github.com/nspcc-dev/neo-go/pkg/vm/stackitem"
	"pgregory.net/rapid"
	"verifharness/vt"
)

// ---- generator --------------------------------------------------------------------------------------

var (
	hashLeafRefs   = []int{RefA, RefB, RefC, RefD, RefEntry, RefDyn0, RefDyn1, RefGAS, RefUnknown}
	byHashLeafRefs = []int{RefA, RefB, RefC, RefD, RefEntry, RefDyn0, RefDyn1, RefGAS, RefUnknown, RefZero, RefZero}
	allowedRefs    = []int{RefA, RefB, RefC, RefD, RefEntry, RefDyn0, RefGAS}
	signerRefs     = []int{RefK0, RefK0, RefK1, RefA, RefC, RefDyn0}
	flagPalette    = []int{15, 15, 15, 15, 15, 15, 15, 5, 5, 4, 0, 1, 14}
	// every scope byte the decoder accepts: subsets of {CalledByEntry, CustomContracts, CustomGroups, Rules} and Global alone
	scopePalette = func() []int {
		var out []int
		for m := 0; m < 16; m++ {
			s := 0
			for i, b := range []int{scCalledByEntry, scContracts, scGroups, scRules} {
				if m&(1<<i) != 0 {
					s |= b
				}
			}
			out = append(out, s)
		}
		// single scopes and rules are the common ones: weight them
		return append(out, scGlobal, scCalledByEntry, scContracts, scGroups, scRules, scRules, scRules|scCalledByEntry)
	}()
)

func genLeaf(t *rapid.T) Cond {
	switch rapid.IntRange(0, 6).Draw(t, "leaf") {
	case 0:
		return Cond{T: "bool", B: rapid.Bool().Draw(t, "b")}
	case 1:
		return Cond{T: "hash", H: rapid.SampledFrom(hashLeafRefs).Draw(t, "h")}
	case 2:
		return Cond{T: "group", G: rapid.IntRange(0, NGroups-1).Draw(t, "g")}
	case 3:
		return Cond{T: "entry"}
	case 4:
		return Cond{T: "byhash", H: rapid.SampledFrom(byHashLeafRefs).Draw(t, "h")}
	case 5:
		return Cond{T: "bygroup", G: rapid.IntRange(0, NGroups-1).Draw(t, "g")}
	default:
		return Cond{T: "hash", H: rapid.SampledFrom([]int{RefA, RefB, RefC}).Draw(t, "h")}
	}
}

// genCond draws a condition tree with at most `levels` levels (transaction.MaxConditionNesting = 3 at the root).
func genCond(t *rapid.T, levels int) Cond {
	if levels <= 1 {
		return genLeaf(t)
	}
	switch rapid.IntRange(0, 9).Draw(t, "op") {
	case 0, 1, 2:
		return Cond{T: "not", Sub: []Cond{genCond(t, levels-1)}}
	case 3, 4:
		n := rapid.IntRange(1, 3).Draw(t, "n")
		c := Cond{T: "and"}
		for i := 0; i < n; i++ {
			c.Sub = append(c.Sub, genCond(t, levels-1))
		}
		return c
	case 5, 6:
		n := rapid.IntRange(1, 3).Draw(t, "n")
		c := Cond{T: "or"}
		for i := 0; i < n; i++ {
			c.Sub = append(c.Sub, genCond(t, levels-1))
		}
		return c
	}
	return genLeaf(t)
}

func genSubset(t *rapid.T, pool []int, label string) []int {
	var out []int
	mask := rapid.IntRange(0, (1<<len(pool))-1).Draw(t, label)
	for i, v := range pool {
		if mask&(1<<i) != 0 {
			out = append(out, v)
		}
	}
	return out
}

func genSigner(t *rapid.T, acct int) Signer {
	s := Signer{Acct: acct, Scope: rapid.SampledFrom(scopePalette).Draw(t, "scope")}
	if s.Scope&scContracts != 0 {
		s.Contracts = genSubset(t, allowedRefs, "contracts")
	}
	if s.Scope&scGroups != 0 {
		s.Groups = genSubset(t, []int{G1, G2, GOther}, "groups")
	}
	if s.Scope&scRules != 0 {
		n := rapid.SampledFrom([]int{0, 1, 1, 1, 2, 2, 3}).Draw(t, "nrules")
		for i := 0; i < n; i++ {
			s.Rules = append(s.Rules, Rule{Allow: rapid.IntRange(0, 2).Draw(t, "allow") != 0, Cond: genCond(t, transaction.MaxConditionNesting)})
		}
	}
	return s
}

// posRef is the symbolic reference of the script running at chain position i (0 = entry).
func posRef(hops []Hop, i int) int {
	if i <= 0 {
		return RefEntry
	}
	h := hops[i-1]
	if h.Kind == HopDyn {
		return RefDyn0 + h.Target
	}
	return h.Target
}

// fixFlags raises the requested flags of each hop to what the rest of the chain needs to be executable at all
// (System.Contract.Call: ReadStates|AllowCall, LoadScript: AllowCall, GAS.transfer with callback: All).
func fixFlags(hops []Hop, leaf int) {
	req := 0
	if leaf == LeafGas {
		req = int(callflag.All)
	}
	for i := len(hops) - 1; i >= 0; i-- {
		switch hops[i].Kind {
		case HopCall:
			hops[i].Flags |= req
			req |= int(callflag.ReadStates | callflag.AllowCall)
		case HopDyn:
			hops[i].Flags |= req
			req |= int(callflag.AllowCall)
		case HopNative:
			hops[i].Flags = int(callflag.All)
			req = int(callflag.All)
		}
	}
}

func genChain(t *rapid.T, maxDepth int) ([]Hop, int) {
	depth := rapid.SampledFrom([]int{0, 1, 1, 2, 2, 2, 3, 3, 3}).Draw(t, "depth")
	if depth > maxDepth {
		depth = maxDepth
	}
	var hops []Hop
	dyn := false
	for i := 0; i < depth; i++ {
		k := rapid.SampledFrom([]int{HopCall, HopCall, HopDyn, HopNative}).Draw(t, "kind")
		if k == HopNative && dyn { // a dynamic script is read-only: nothing below it can run GAS.transfer
			k = HopCall
		}
		h := Hop{Kind: k, Flags: rapid.SampledFrom(flagPalette).Draw(t, "flags")}
		if k == HopDyn {
			dyn = true
			h.Target = rapid.IntRange(0, 1).Draw(t, "dynv")
		} else {
			h.Target = rapid.IntRange(0, 3).Draw(t, "target")
		}
		hops = append(hops, h)
	}
	leaf := LeafSyscall
	if !dyn && rapid.IntRange(0, 5).Draw(t, "leaf") == 0 {
		leaf = LeafGas
	}
	fixFlags(hops, leaf)
	return hops, leaf
}

func genAcct(t *rapid.T, signers []Signer, hops []Hop, leaf int) Acct {
	n := len(hops)
	// symbolic current / calling scripts of the context that performs the check
	cur, calling := posRef(hops, n), RefZero
	if n > 0 {
		calling = posRef(hops, n-1)
		if hops[n-1].Kind == HopNative {
			calling = RefGAS
		}
	}
	if leaf == LeafGas {
		cur, calling = RefGAS, posRef(hops, n)
	}
	var a Acct
	switch rapid.SampledFrom([]string{"signer", "signer", "signer", "signer", "signer", "pub", "pub", "calling", "calling", "calling",
		"current", "grand", "other", "other"}).Draw(t, "acctkind") {
	case "signer":
		a.Ref = signers[rapid.IntRange(0, len(signers)-1).Draw(t, "which")].Acct
	case "pub":
		a.Ref = signers[rapid.IntRange(0, len(signers)-1).Draw(t, "which")].Acct
		if a.Ref < RefK0 {
			a.Ref = rapid.IntRange(RefK0, RefK2).Draw(t, "key")
		}
		a.Pub = true
	case "calling":
		a.Ref = calling
	case "current":
		a.Ref = cur
	case "grand":
		a.Ref = posRef(hops, n-2)
	default:
		a.Ref = rapid.SampledFrom([]int{RefK2, RefK1, RefUnknown, RefZero, RefGAS, RefB, RefD, RefEntry}).Draw(t, "ref")
		if a.Ref >= RefK0 {
			a.Pub = rapid.Bool().Draw(t, "pub")
		}
	}
	if leaf == LeafGas { // GAS.transfer takes a 20-byte account
		a.Pub = false
	}
	return a
}

func genCellBounded(t *rapid.T, maxDepth int) Case {
	var c Case
	c.Hops, c.Leaf = genChain(t, maxDepth)
	first := rapid.SampledFrom(signerRefs).Draw(t, "s0")
	c.Signers = append(c.Signers, genSigner(t, first))
	if rapid.IntRange(0, 2).Draw(t, "two") == 0 {
		second := rapid.SampledFrom(signerRefs).Draw(t, "s1")
		if second == first { // signer accounts of a transaction are distinct
			second = RefK2
		}
		c.Signers = append(c.Signers, genSigner(t, second))
	}
	c.Acct = genAcct(t, c.Signers, c.Hops, c.Leaf)
	return c
}

func genCell(t *rapid.T) Case { return genCellBounded(t, 3) }

// ---- check ------------------------------------------------------------------------------------------

func condLevels(c Cond) int {
	m := 0
	for _, s := range c.Sub {
		if l := condLevels(s); l > m {
			m = l
		}
	}
	return m + 1
}

func validCond(c Cond) error {
	switch c.T {
	case "bool", "entry":
	case "hash", "byhash":
		if c.H < 0 || c.H >= NRefs {
			return fmt.Errorf("bad hash reference %d", c.H)
		}
	case "group", "bygroup":
		if c.G < 0 || c.G >= NGroups {
			return fmt.Errorf("bad group %d", c.G)
		}
	case "not":
		if len(c.Sub) != 1 {
			return fmt.Errorf("not with %d operands", len(c.Sub))
		}
	case "and", "or":
		if len(c.Sub) == 0 {
			return fmt.Errorf("%s without operands", c.T)
		}
	default:
		return fmt.Errorf("unknown condition type %q", c.T)
	}
	for _, s := range c.Sub {
		if err := validCond(s); err != nil {
			return err
		}
	}
	return nil
}

func validCase(c Case) error {
	if len(c.Signers) == 0 || len(c.Hops) > 3 {
		return fmt.Errorf("malformed case: %d signers, %d hops", len(c.Signers), len(c.Hops))
	}
	for i, s := range c.Signers {
		if s.Acct < 0 || s.Acct >= NRefs {
			return fmt.Errorf("signer %d: bad account reference", i)
		}
		for j := 0; j < i; j++ {
			if c.Signers[j].Acct == s.Acct {
				return fmt.Errorf("malformed case: duplicate signer account")
			}
		}
		for _, r := range s.Contracts {
			if r < 0 || r >= NRefs {
				return fmt.Errorf("signer %d: bad contract reference", i)
			}
		}
		for _, g := range s.Groups {
			if g < 0 || g >= NGroups {
				return fmt.Errorf("signer %d: bad group", i)
			}
		}
		for _, r := range s.Rules {
			if err := validCond(r.Cond); err != nil {
				return fmt.Errorf("signer %d: %v", i, err)
			}
		}
	}
	if c.Acct.Ref < 0 || c.Acct.Ref >= NRefs || (c.Acct.Pub && c.Acct.Ref < RefK0) {
		return fmt.Errorf("malformed case: bad checked account")
	}
	if c.Leaf != LeafSyscall && c.Leaf != LeafGas {
		return fmt.Errorf("malformed case: bad leaf")
	}
	if c.Leaf == LeafGas && c.Acct.Pub {
		return fmt.Errorf("malformed case: GAS leaf with a public key")
	}
	return nil
}

// entryScript assembles "push path, push acct, body".
func (w *world) entryScript(c Case) []byte {
	path := []any{}
	for _, h := range c.Hops {
		switch h.Kind {
		case HopCall, HopNative:
			path = append(path, []any{h.Kind, w.contracts[h.Target].BytesBE(), h.Flags})
		case HopDyn:
			path = append(path, []any{h.Kind, w.dyn[h.Target], h.Flags})
		}
	}
	if c.Leaf == LeafGas {
		path = append(path, []any{hopGasLeaf, w.keys[2].Hash.BytesBE(), 0})
	}
	bw := io.NewBufBinWriter()
	emit.Any(bw.BinWriter, path)
	switch {
	case c.Acct.Ref == RefEntry:
		// The script cannot contain its own hash: it asks for it. The oracle uses the hash computed outside the VM.
		emit.Syscall(bw.BinWriter, "System.Runtime.GetExecutingScriptHash")
	case c.Acct.Pub:
		emit.Bytes(bw.BinWriter, w.keys[c.Acct.Ref-RefK0].Pub.Bytes())
	default:
		emit.Bytes(bw.BinWriter, w.resolve(c.Acct.Ref, util.Uint160{}).BytesBE())
	}
	bw.WriteBytes(w.body)
	if bw.Err != nil {
		panic(bw.Err)
	}
	return bw.Bytes()
}

// outcome of the real execution.
type outcome struct {
	v   verdict
	msg string // fault message
}

func (w *world) execute(script []byte, signers []transaction.Signer, viaNotification bool) (outcome, error) {
	tx := transaction.New(script, 0)
	tx.Nonce = 15
	tx.ValidUntilBlock = w.bc.BlockHeight() + 1
	tx.Signers = signers
	tx.Scripts = make([]transaction.Witness, len(signers))
	ic, err := w.bc.GetTestVM(trigger.Application, tx, nil)
	if err != nil {
		return outcome{}, fmt.Errorf("GetTestVM: %v", err)
	}
	defer ic.Finalize()
	ic.VM.LoadWithFlags(script, callflag.All)
	if err := ic.VM.Run(); err != nil {
		return outcome{v: vFault, msg: err.Error()}, nil
	}
	var item stackitem.Item
	if viaNotification {
		for _, n := range ic.Notifications {
			if n.Name == "E" {
				arr := n.Item.Value().([]stackitem.Item)
				if len(arr) != 1 {
					return outcome{}, fmt.Errorf("harness: malformed result notification")
				}
				item = arr[0]
				break
			}
		}
		if item == nil {
			return outcome{}, fmt.Errorf("harness: the payment callback did not report a result")
		}
	} else {
		if ic.VM.Estack().Len() != 1 {
			return outcome{}, fmt.Errorf("harness: %d items on the result stack", ic.VM.Estack().Len())
		}
		item = ic.VM.Estack().Pop().Item()
	}
	b, ok := item.(stackitem.Bool)
	if !ok {
		return outcome{}, fmt.Errorf("the witness check produced a %s, not a Boolean", item.Type())
	}
	return outcome{v: yes(bool(b))}, nil
}

func scopeLabel(s int) string {
	if s == 0 {
		return "None"
	}
	var p []string
	for _, x := range []struct {
		b int
		n string
	}{{scCalledByEntry, "Entry"}, {scContracts, "Contracts"}, {scGroups, "Groups"}, {scRules, "Rules"}, {scGlobal, "Global"}} {
		if s&x.b != 0 {
			p = append(p, x.n)
		}
	}
	return strings.Join(p, "+")
}

// cls is the classification of an evaluated cell.
type cls struct {
	labels     []string
	nontrivial bool
	excluded   bool
	units      int
}

func (o *cls) Label(l string)            { o.labels = append(o.labels, l) }
func (o *cls) Labelf(f string, a ...any) { o.Label(fmt.Sprintf(f, a...)) }
func (o *cls) NonTrivial()               { o.nontrivial = true }
func (o *cls) Excluded()                 { o.excluded = true }
func (o *cls) Units(n int)               { o.units += n }

func (o *cls) apply(v *vt.Obs) {
	for _, l := range o.labels {
		v.Label(l)
	}
	if o.nontrivial {
		v.NonTrivial()
	}
	if o.excluded {
		v.Excluded()
	}
	v.Units(o.units)
}

func checkCell(c Case, v *vt.Obs) error {
	o := &cls{}
	err := evalCell(c, o, true)
	o.apply(v)
	return err
}

// evalCell runs one cell: real execution against the specification. honourKnown skips shapes of listed findings.
func evalCell(c Case, o *cls, honourKnown bool) error {
	w, err := getWorld()
	if err != nil {
		return fmt.Errorf("setup: %v", err)
	}
	if err := validCase(c); err != nil {
		return err
	}
	script := w.entryScript(c)
	entry := hash.Hash160(script)
	chain, leaf, err := w.positions(c, entry)
	if err != nil {
		return fmt.Errorf("malformed case: %v", err)
	}
	acct := w.resolve(c.Acct.Ref, entry) // a public key stands for the account of its signature contract
	signers, err := w.realSigners(c.Signers, entry)
	if err != nil {
		return fmt.Errorf("malformed case: %v", err)
	}

	if honourKnown && !leaf.hasCalling && vt.Known(KnownZeroCaller) {
		// listed finding: CalledByContract(00..00) matches in a context without a calling script; that exact shape is skipped
		for _, s := range c.Signers {
			for _, r := range s.Rules {
				if s.Scope&scRules != 0 && containsByHashZero(r.Cond) {
					o.Excluded()
					return nil
				}
			}
		}
	}

	want, y := allowed(c.Signers, acct, w.envOf(leaf, entry))

	viaNote := false
	kinds := ""
	for _, h := range c.Hops {
		if h.Kind == HopNative {
			viaNote = true
		}
		kinds += string("cdn"[h.Kind])
	}
	got, err := w.execute(script, signers, viaNote)
	if err != nil {
		return err
	}
	o.Units(1)

	ok := got.v == want
	lenient := false
	if !ok && y.emptyGroups && got.v == vFault {
		// CustomGroups with an EMPTY group list evaluated in a context without ReadStates: there is no group to look
		// up, so the specification goes on to the rules; the implementation refuses to evaluate the scope at all. The
		// property text does not settle this corner (the fault is never a successful witness): claimed domain restricted,
		// both answers accepted and counted (see report).
		ok, lenient = true, true
	}
	if !ok {
		return fmt.Errorf("witness check of %s%s in context {current %s, calling %s (has=%v), level %d, flags %d} over chain [%s] leaf %d: real %s%s, specification %s (decided by: %s); signers %+v",
			refNames[c.Acct.Ref], map[bool]string{true: " (public key)", false: ""}[c.Acct.Pub],
			leaf.cur.StringLE(), leaf.calling.StringLE(), leaf.hasCalling, leaf.level, leaf.flags, kinds, c.Leaf,
			got.v, map[bool]string{true: " (" + got.msg + ")", false: ""}[got.msg != ""], want, y.by, c.Signers)
	}

	// ---- classification ----
	var consulted *Signer
	for i := range c.Signers {
		if w.resolve(c.Signers[i].Acct, entry) == acct {
			consulted = &c.Signers[i]
		}
	}
	switch {
	case y.by == "own-call":
		o.Label("acct/calling-own")
	case consulted != nil && c.Acct.Pub:
		o.Label("acct/signer-pubkey")
	case consulted != nil:
		o.Label("acct/signer")
	case acct == leaf.cur:
		o.Label("acct/current-nonsigner")
	case c.Acct.Pub:
		o.Label("acct/nonsigner-pubkey")
	default:
		o.Label("acct/nonsigner")
	}
	if consulted != nil && y.by != "own-call" {
		o.Label("scope/" + scopeLabel(consulted.Scope))
	}
	o.Labelf("depth/%d", len(c.Hops))
	if kinds != "" {
		o.Label("hops/" + kinds)
	}
	if c.Leaf == LeafGas {
		o.Label("leaf/native-gas")
	}
	if !leaf.flags.Has(callflag.ReadStates) {
		o.Label("ctx/no-ReadStates")
	}
	if len(c.Signers) == 2 {
		o.Label("two-signers")
	}
	o.Label("outcome/" + want.String())
	o.Label("by/" + y.by)
	if lenient {
		o.Label("lenient/empty-groups-no-ReadStates")
	}

	// Non-trivial: the same witness check gives different answers at different positions of this chain, or the
	// deciding rule is under a Not.
	nt := y.underNot
	positions := append([]pos{}, chain...)
	if c.Leaf == LeafGas {
		positions = append(positions, leaf)
	}
	first, _ := allowed(c.Signers, acct, w.envOf(positions[0], entry))
	for _, p := range positions[1:] {
		if v, _ := allowed(c.Signers, acct, w.envOf(p, entry)); v != first {
			nt = true
			o.Label("nt/position-dependent")
			break
		}
	}
	if y.underNot {
		o.Label("nt/under-not")
	}
	if nt {
		o.NonTrivial()
	}
	return nil
}

func init() {
	vt.PropertyID = "C15"
	vt.Register("cells", 1.0, genCell, checkCell)
}
