package c15

import (
	"fmt"
	"strings"

	"github.com/nspcc-dev/neo-go/pkg/core/transaction"
	"github.com/nspcc-dev/neo-go/pkg/crypto/hash"
	"github.com/nspcc-dev/neo-go/pkg/smartcontract/callflag"
	"github.com/nspcc-dev/neo-go/pkg/smartcontract/trigger"
	"github.com/nspcc-dev/neo-go/pkg/util"
	"github.com/nspcc-dev/neo-go/pkg/vm/opcode"
	"github.com/nspcc-dev/neo-go/pkg/vm/stackitem"
	"pgregory.net/rapid"
	"verifharness/asm"
	"verifharness/vt"
)

// ---- generator --------------------------------------------------------------------------------------

var (
	hashLeafRefs   = []int{RefA, RefB, RefC, RefD, RefEntry, RefDyn0, RefDyn1, RefGAS, RefUnknown}
	byHashLeafRefs = []int{RefA, RefB, RefC, RefD, RefEntry, RefDyn0, RefDyn1, RefGAS, RefUnknown, RefZero, RefZero}
	allowedRefs    = []int{RefA, RefB, RefC, RefD, RefEntry, RefDyn0, RefGAS}
	signerRefs     = []int{RefK0, RefK0, RefK1, RefA, RefC, RefDyn0}
	flagPalette    = []int{15, 15, 15, 15, 15, 15, 15, 5, 5, 4, 0, 1, 14}
	// every scope byte the decoder accepts: subsets of {CalledByEntry, CustomContracts, CustomGroups, Rules} and Global alone
	scopePalette = func() []int {
		var out []int
		for m := 0; m < 16; m++ {
			s := 0
			for i, b := range []int{scCalledByEntry, scContracts, scGroups, scRules} {
				if m&(1<<i) != 0 {
					s |= b
				}
			}
			out = append(out, s)
		}
		// single scopes and rules are the common ones: weight them
		return append(out, scGlobal, scCalledByEntry, scContracts, scGroups, scRules, scRules, scRules|scCalledByEntry)
	}()
)

// Leaf biases of the two storylines.
const (
	biasNone = iota
	biasEntry
	biasGroup // biasGroup + 4*(g+1): group g is the one whose membership the execution changes
)

func biasKind(b int) int { return b % 4 }

// focusGroup draws the group a biased leaf / scope names: mostly the one the execution changes.
func focusGroup(t *rapid.T, bias int) int {
	if f := bias/4 - 1; f >= 0 && rapid.IntRange(0, 3).Draw(t, "focus") != 0 {
		return f
	}
	return rapid.IntRange(0, NGroups-1).Draw(t, "g")
}

func genLeaf(t *rapid.T, bias int) Cond {
	if bias != biasNone && rapid.Bool().Draw(t, "biased") {
		switch {
		case biasKind(bias) == biasEntry:
			return Cond{T: "entry"}
		case rapid.Bool().Draw(t, "calling"):
			return Cond{T: "bygroup", G: focusGroup(t, bias)}
		default:
			return Cond{T: "group", G: focusGroup(t, bias)}
		}
	}
	switch rapid.IntRange(0, 6).Draw(t, "leaf") {
	case 0:
		return Cond{T: "bool", B: rapid.Bool().Draw(t, "b")}
	case 1:
		return Cond{T: "hash", H: rapid.SampledFrom(hashLeafRefs).Draw(t, "h")}
	case 2:
		return Cond{T: "group", G: rapid.IntRange(0, NGroups-1).Draw(t, "g")}
	case 3:
		return Cond{T: "entry"}
	case 4:
		return Cond{T: "byhash", H: rapid.SampledFrom(byHashLeafRefs).Draw(t, "h")}
	case 5:
		return Cond{T: "bygroup", G: rapid.IntRange(0, NGroups-1).Draw(t, "g")}
	default:
		return Cond{T: "hash", H: rapid.SampledFrom([]int{RefA, RefB, RefC}).Draw(t, "h")}
	}
}

// genCond draws a condition tree with at most `levels` levels (transaction.MaxConditionNesting = 3 at the root).
func genCond(t *rapid.T, levels int, bias int) Cond {
	if levels <= 1 {
		return genLeaf(t, bias)
	}
	switch rapid.IntRange(0, 9).Draw(t, "op") {
	case 0, 1, 2:
		return Cond{T: "not", Sub: []Cond{genCond(t, levels-1, bias)}}
	case 3, 4:
		n := rapid.IntRange(1, 3).Draw(t, "n")
		c := Cond{T: "and"}
		for i := 0; i < n; i++ {
			c.Sub = append(c.Sub, genCond(t, levels-1, bias))
		}
		return c
	case 5, 6:
		n := rapid.IntRange(1, 3).Draw(t, "n")
		c := Cond{T: "or"}
		for i := 0; i < n; i++ {
			c.Sub = append(c.Sub, genCond(t, levels-1, bias))
		}
		return c
	}
	return genLeaf(t, bias)
}

func genSubset(t *rapid.T, pool []int, label string) []int {
	var out []int
	mask := rapid.IntRange(0, (1<<len(pool))-1).Draw(t, label)
	for i, v := range pool {
		if mask&(1<<i) != 0 {
			out = append(out, v)
		}
	}
	return out
}

func genSigner(t *rapid.T, acct int, bias int) Signer {
	s := Signer{Acct: acct, Scope: rapid.SampledFrom(scopePalette).Draw(t, "scope")}
	switch biasKind(bias) {
	case biasEntry:
		s.Scope = rapid.SampledFrom([]int{scCalledByEntry, scCalledByEntry, scRules, scRules, scCalledByEntry | scContracts, scCalledByEntry | scGroups,
			scCalledByEntry | scRules}).Draw(t, "escope")
	case biasGroup:
		s.Scope = rapid.SampledFrom([]int{scGroups, scGroups, scRules, scRules, scGroups | scContracts, scGroups | scRules}).Draw(t, "gscope")
	}
	if s.Scope&scContracts != 0 {
		s.Contracts = genSubset(t, allowedRefs, "contracts")
	}
	if s.Scope&scGroups != 0 {
		s.Groups = genSubset(t, []int{G1, G2, GOther}, "groups")
		if biasKind(bias) == biasGroup && rapid.Bool().Draw(t, "onlyfocus") {
			s.Groups = []int{focusGroup(t, bias)}
		}
	}
	if s.Scope&scRules != 0 {
		n := rapid.SampledFrom([]int{0, 1, 1, 1, 2, 2, 3}).Draw(t, "nrules")
		if bias != biasNone && n == 0 {
			n = 1
		}
		for i := 0; i < n; i++ {
			s.Rules = append(s.Rules, Rule{Allow: rapid.IntRange(0, 2).Draw(t, "allow") != 0, Cond: genCond(t, transaction.MaxConditionNesting, bias)})
		}
	}
	return s
}

// posRef is the symbolic reference of the script running at chain position i (0 = entry).
func posRef(hops []Hop, i int) int {
	if i <= 0 {
		return RefEntry
	}
	h := hops[i-1]
	switch h.Kind {
	case HopDyn:
		return RefDyn0 + h.Target
	case HopSelf:
		return RefEntry
	case HopReward:
		return posRef(hops, i-1) // the contract that made the hop is re-entered
	}
	return h.Target
}

// fixFlags raises the requested flags of each hop to what the rest of the chain needs to be executable at all
// (System.Contract.Call: ReadStates|AllowCall, LoadScript: AllowCall, GAS.transfer with callback: All).
func fixFlags(hops []Hop, leaf int) {
	req := 0
	if leaf == LeafGas {
		req = int(callflag.All)
	}
	for i := len(hops) - 1; i >= 0; i-- {
		if hops[i].Mut != nil { // the frame reached by this hop calls ContractManagement
			req = int(callflag.All)
		}
		switch hops[i].Kind {
		case HopCall:
			hops[i].Flags |= req
			req |= int(callflag.ReadStates | callflag.AllowCall)
		case HopDyn, HopSelf:
			hops[i].Flags |= req
			req |= int(callflag.AllowCall)
		case HopNative, HopReward:
			hops[i].Flags = int(callflag.All)
			req = int(callflag.All)
		}
	}
}

func genMut(t *rapid.T) *Mut {
	if rapid.IntRange(0, 3).Draw(t, "destroy") == 0 {
		return &Mut{Op: MutDestroy}
	}
	return &Mut{Op: MutUpdate, Groups: genSubset(t, []int{G1, G2, GOther}, "newgroups")}
}

// genChain draws the call chain. Besides the general shape there are two storylines (bias != biasNone):
//
//	biasEntry: a frame running the entry script's own bytes (LoadScript of the transaction script) calls a contract, which
//	           is then NOT called by entry although its calling script hash equals the entry script hash; or a contract
//	           called by entry is re-entered through the NEP-17 payment callback;
//	biasGroup: a contract changes its own manifest groups (update) or destroys itself and then it, or a contract it
//	           calls, checks a witness.
func genChain(t *rapid.T, maxDepth int) ([]Hop, int, int) {
	pal := func() int { return rapid.SampledFrom(flagPalette).Draw(t, "flags") }
	target := func() int { return rapid.IntRange(0, 3).Draw(t, "target") }
	story := biasNone
	if maxDepth >= 2 {
		story = rapid.SampledFrom([]int{biasNone, biasNone, biasNone, biasNone, biasNone, biasEntry, biasGroup, biasGroup}).Draw(t, "story")
	}
	var hops []Hop
	leaf := LeafSyscall
	switch story {
	case biasEntry:
		if r := rapid.IntRange(0, 5).Draw(t, "reenter"); r <= 1 {
			x := target()
			hops = []Hop{{Kind: HopCall, Target: x, Flags: 15}, {Kind: HopNative, Target: x, Flags: 15}}
			if r == 1 {
				// ... re-entered through the callback of its GAS reward, which GAS calls on behalf of NEO
				hops[1] = Hop{Kind: HopReward, Flags: 15}
				if maxDepth >= 3 && rapid.Bool().Draw(t, "deeper") {
					hops = append(hops, Hop{Kind: HopCall, Target: target(), Flags: pal()})
				}
			}
			break
		}
		if maxDepth >= 3 && rapid.IntRange(0, 2).Draw(t, "prefix") == 0 {
			hops = append(hops, Hop{Kind: rapid.SampledFrom([]int{HopCall, HopNative, HopDyn}).Draw(t, "pk"), Flags: pal()})
			if hops[0].Kind == HopDyn {
				hops[0].Target = rapid.IntRange(0, 1).Draw(t, "dynv")
			} else {
				hops[0].Target = target()
			}
		}
		hops = append(hops, Hop{Kind: HopSelf, Flags: pal()}, Hop{Kind: HopCall, Target: target(), Flags: pal()})
		if len(hops) < maxDepth && rapid.IntRange(0, 3).Draw(t, "suffix") == 0 {
			hops = append(hops, Hop{Kind: HopCall, Target: target(), Flags: pal()})
		}
	case biasGroup:
		if maxDepth >= 3 && rapid.IntRange(0, 2).Draw(t, "prefix") == 0 {
			hops = append(hops, Hop{Kind: rapid.SampledFrom([]int{HopCall, HopNative}).Draw(t, "pk"), Target: target(), Flags: 15})
		}
		m := Hop{Kind: rapid.SampledFrom([]int{HopCall, HopCall, HopNative}).Draw(t, "mk"), Target: target(), Flags: 15, Mut: genMut(t)}
		hops = append(hops, m)
		if rapid.Bool().Draw(t, "callee") { // the check happens in a callee (CalledByGroup sees the changed caller)
			k := rapid.SampledFrom([]int{HopCall, HopCall, HopDyn}).Draw(t, "ck")
			h := Hop{Kind: k, Flags: pal()}
			if k == HopDyn {
				h.Target = rapid.IntRange(0, 1).Draw(t, "dynv")
			} else {
				h.Target = target()
				if m.Mut.Op == MutDestroy && h.Target == m.Target {
					h.Target = (h.Target + 1) % 4
				}
			}
			hops = append(hops, h)
		}
	default:
		depth := rapid.SampledFrom([]int{0, 1, 1, 2, 2, 2, 3, 3, 3}).Draw(t, "depth")
		if depth > maxDepth {
			depth = maxDepth
		}
		ro := false // below a dynamic script everything is read-only
		destroyed := map[int]bool{}
		for i := 0; i < depth; i++ {
			k := rapid.SampledFrom([]int{HopCall, HopCall, HopCall, HopDyn, HopNative, HopNative, HopSelf}).Draw(t, "kind")
			if k == HopNative && (ro || len(destroyed) > 0) {
				k = HopCall
			}
			if k == HopCall && !ro && len(destroyed) == 0 && i > 0 && (hops[i-1].Kind == HopCall || hops[i-1].Kind == HopNative) &&
				hops[i-1].Mut == nil && !rewardedAlready(hops) && rapid.IntRange(0, 4).Draw(t, "reward") == 0 {
				k = HopReward
			}
			h := Hop{Kind: k, Flags: pal()}
			switch k {
			case HopDyn:
				ro = true
				h.Target = rapid.IntRange(0, 1).Draw(t, "dynv")
			case HopSelf:
				ro = true
			case HopReward:
			default:
				h.Target = target()
				for destroyed[h.Target] {
					h.Target = (h.Target + 1) % 4
				}
				if !ro && rapid.IntRange(0, 9).Draw(t, "mut") == 0 {
					h.Mut = genMut(t)
					if h.Mut.Op == MutDestroy {
						if len(destroyed) == 3 {
							h.Mut = nil
						} else {
							destroyed[h.Target] = true
						}
					}
				}
			}
			hops = append(hops, h)
		}
		if !ro && len(destroyed) == 0 && rapid.IntRange(0, 5).Draw(t, "leaf") == 0 {
			leaf = LeafGas
		}
	}
	fixFlags(hops, leaf)
	if story == biasGroup {
		// the group whose membership the mutating contract changes (any one of them; none: the update changes nothing)
		base := map[int]int{RefA: 1 << G1, RefB: 1<<G1 | 1<<G2, RefC: 1 << G2, RefD: 0}
		for _, h := range hops {
			if h.Mut == nil {
				continue
			}
			now := 0
			for _, g := range h.Mut.Groups {
				now |= 1 << g
			}
			var changed []int
			for g := 0; g < NGroups; g++ {
				if (now^base[h.Target])&(1<<g) != 0 {
					changed = append(changed, g)
				}
			}
			if len(changed) > 0 {
				story += 4 * (1 + rapid.SampledFrom(changed).Draw(t, "changedgroup"))
				break
			}
		}
	}
	return hops, leaf, story
}

func genAcct(t *rapid.T, signers []Signer, hops []Hop, leaf int, story int) Acct {
	n := len(hops)
	// symbolic current / calling scripts of the context that performs the check
	cur, calling := posRef(hops, n), RefZero
	if n > 0 {
		calling = posRef(hops, n-1)
		if hops[n-1].Kind == HopNative || hops[n-1].Kind == HopReward {
			calling = RefGAS
		}
	}
	if leaf == LeafGas {
		cur, calling = RefGAS, posRef(hops, n)
	}
	var a Acct
	kinds := []string{"signer", "signer", "signer", "signer", "signer", "pub", "pub", "calling", "calling", "calling",
		"current", "grand", "other", "other"}
	if story != biasNone {
		kinds = []string{"first", "first", "first", "first", "first", "first", "first", "signer", "pub", "calling", "current", "other"}
	}
	switch rapid.SampledFrom(kinds).Draw(t, "acctkind") {
	case "first":
		a.Ref = signers[0].Acct
	case "signer":
		a.Ref = signers[rapid.IntRange(0, len(signers)-1).Draw(t, "which")].Acct
	case "pub":
		a.Ref = signers[rapid.IntRange(0, len(signers)-1).Draw(t, "which")].Acct
		if a.Ref < RefK0 {
			a.Ref = rapid.IntRange(RefK0, RefK2).Draw(t, "key")
		}
		a.Pub = true
	case "calling":
		a.Ref = calling
	case "current":
		a.Ref = cur
	case "grand":
		a.Ref = posRef(hops, n-2)
	default:
		a.Ref = rapid.SampledFrom([]int{RefK2, RefK1, RefUnknown, RefZero, RefGAS, RefB, RefD, RefEntry}).Draw(t, "ref")
		if a.Ref >= RefK0 {
			a.Pub = rapid.Bool().Draw(t, "pub")
		}
	}
	if leaf == LeafGas { // GAS.transfer takes a 20-byte account
		a.Pub = false
	}
	return a
}

func genCellBounded(t *rapid.T, maxDepth int) Case {
	var c Case
	var story int
	c.Hops, c.Leaf, story = genChain(t, maxDepth)
	first := rapid.SampledFrom(signerRefs).Draw(t, "s0")
	c.Signers = append(c.Signers, genSigner(t, first, story))
	if rapid.IntRange(0, 2).Draw(t, "two") == 0 {
		second := rapid.SampledFrom(signerRefs).Draw(t, "s1")
		if second == first { // signer accounts of a transaction are distinct
			second = RefK2
		}
		c.Signers = append(c.Signers, genSigner(t, second, biasNone))
	}
	c.Acct = genAcct(t, c.Signers, c.Hops, c.Leaf, story)
	return c
}

func genCell(t *rapid.T) Case { return genCellBounded(t, 3) }

// ---- check ------------------------------------------------------------------------------------------

func condLevels(c Cond) int {
	m := 0
	for _, s := range c.Sub {
		if l := condLevels(s); l > m {
			m = l
		}
	}
	return m + 1
}

func validCond(c Cond) error {
	switch c.T {
	case "bool", "entry":
	case "hash", "byhash":
		if c.H < 0 || c.H >= NRefs {
			return fmt.Errorf("bad hash reference %d", c.H)
		}
	case "group", "bygroup":
		if c.G < 0 || c.G >= NGroups {
			return fmt.Errorf("bad group %d", c.G)
		}
	case "not":
		if len(c.Sub) != 1 {
			return fmt.Errorf("not with %d operands", len(c.Sub))
		}
	case "and", "or":
		if len(c.Sub) == 0 {
			return fmt.Errorf("%s without operands", c.T)
		}
	default:
		return fmt.Errorf("unknown condition type %q", c.T)
	}
	for _, s := range c.Sub {
		if err := validCond(s); err != nil {
			return err
		}
	}
	return nil
}

func validCase(c Case) error {
	for i, h := range c.Hops {
		if h.Kind < HopCall || h.Kind > HopReward {
			return fmt.Errorf("malformed case: hop %d has kind %d", i, h.Kind)
		}
	}
	if len(c.Signers) == 0 || len(c.Hops) > 3 {
		return fmt.Errorf("malformed case: %d signers, %d hops", len(c.Signers), len(c.Hops))
	}
	for i, s := range c.Signers {
		if s.Acct < 0 || s.Acct >= NRefs {
			return fmt.Errorf("signer %d: bad account reference", i)
		}
		for j := 0; j < i; j++ {
			if c.Signers[j].Acct == s.Acct {
				return fmt.Errorf("malformed case: duplicate signer account")
			}
		}
		for _, r := range s.Contracts {
			if r < 0 || r >= NRefs {
				return fmt.Errorf("signer %d: bad contract reference", i)
			}
		}
		for _, g := range s.Groups {
			if g < 0 || g >= NGroups {
				return fmt.Errorf("signer %d: bad group", i)
			}
		}
		for _, r := range s.Rules {
			if err := validCond(r.Cond); err != nil {
				return fmt.Errorf("signer %d: %v", i, err)
			}
		}
	}
	if c.Acct.Ref < 0 || c.Acct.Ref >= NRefs || (c.Acct.Pub && c.Acct.Ref < RefK0) {
		return fmt.Errorf("malformed case: bad checked account")
	}
	if c.Leaf != LeafSyscall && c.Leaf != LeafGas {
		return fmt.Errorf("malformed case: bad leaf")
	}
	if c.Leaf == LeafGas && c.Acct.Pub {
		return fmt.Errorf("malformed case: GAS leaf with a public key")
	}
	return nil
}

// entryScript assembles "if the stack is empty { push path, push acct }, body".
// emitArgs pushes the arguments of the generic routine for a case: the path, then the account.
func (w *world) emitArgs(b *asm.B, c Case) {
	path := []any{}
	for _, h := range c.Hops {
		switch h.Kind {
		case HopCall:
			path = append(path, []any{skCall, w.contracts[h.Target].BytesBE(), h.Flags})
		case HopNative:
			path = append(path, []any{skNative, w.contracts[h.Target].BytesBE(), h.Flags})
		case HopDyn:
			path = append(path, []any{skDyn, w.dyn[h.Target], h.Flags})
		case HopSelf:
			path = append(path, []any{skSelf, 0, h.Flags})
		case HopReward:
			path = append(path, []any{skReward, 0, 0})
		}
		if h.Mut != nil {
			if h.Mut.Op == MutDestroy {
				path = append(path, []any{skMutate, 1, 0})
			} else {
				var m int
				for _, g := range h.Mut.Groups {
					m |= 1 << g
				}
				path = append(path, []any{skMutate, 0, w.manifests[h.Target][m]})
			}
		}
	}
	if c.Leaf == LeafGas {
		path = append(path, []any{skGasLeaf, w.keys[2].Hash.BytesBE(), 0})
	}
	b.Any(path)
	switch {
	case c.Acct.Ref == RefEntry:
		// The script cannot contain its own hash: it asks for it. The oracle uses the hash computed outside the VM.
		b.Syscall("System.Runtime.GetExecutingScriptHash")
	case c.Acct.Pub:
		b.Bytes(w.keys[c.Acct.Ref-RefK0].Pub.Bytes())
	default:
		b.Bytes(w.resolve(c.Acct.Ref, util.Uint160{}).BytesBE())
	}
}

func (w *world) entryScript(c Case) []byte {
	b := asm.New()
	b.Op(opcode.DEPTH).Jmp(opcode.JMPIFL, "run") // loaded as a dynamic script: the arguments are on the stack already
	w.emitArgs(b, c)
	b.Label("run")
	b.Raw(w.body)
	return b.Script()
}

// outcome of the real execution.
type outcome struct {
	v   verdict
	msg string // fault message
}

func (w *world) execute(script []byte, signers []transaction.Signer, viaNotification bool) (outcome, error) {
	tx := transaction.New(script, 0)
	tx.Nonce = 15
	tx.ValidUntilBlock = w.bc.BlockHeight() + 1
	tx.Signers = signers
	tx.Scripts = make([]transaction.Witness, len(signers))
	ic, err := w.bc.GetTestVM(trigger.Application, tx, nil)
	if err != nil {
		return outcome{}, fmt.Errorf("GetTestVM: %v", err)
	}
	defer ic.Finalize()
	ic.VM.LoadWithFlags(script, callflag.All)
	if err := ic.VM.Run(); err != nil {
		return outcome{v: vFault, msg: err.Error()}, nil
	}
	var item stackitem.Item
	if viaNotification {
		for _, n := range ic.Notifications {
			if n.Name == "E" {
				arr := n.Item.Value().([]stackitem.Item)
				if len(arr) != 1 {
					return outcome{}, fmt.Errorf("harness: malformed result notification")
				}
				item = arr[0]
				break
			}
		}
		if item == nil {
			return outcome{}, fmt.Errorf("harness: the payment callback did not report a result")
		}
	} else {
		if ic.VM.Estack().Len() != 1 {
			return outcome{}, fmt.Errorf("harness: %d items on the result stack", ic.VM.Estack().Len())
		}
		item = ic.VM.Estack().Pop().Item()
	}
	b, ok := item.(stackitem.Bool)
	if !ok {
		return outcome{}, fmt.Errorf("the witness check produced a %s, not a Boolean", item.Type())
	}
	return outcome{v: yes(bool(b))}, nil
}

// condUses reports whether a tree has a CalledByEntry leaf (and whether one is under a Not) and a group leaf.
func condUses(c Cond, underNot bool) (entry, entryUnderNot, group bool) {
	switch c.T {
	case "entry":
		return true, underNot, false
	case "group", "bygroup":
		return false, false, true
	}
	for _, s := range c.Sub {
		e, n, g := condUses(s, underNot || c.T == "not")
		entry, entryUnderNot, group = entry || e, entryUnderNot || n, group || g
	}
	return
}

func scopeLabel(s int) string {
	if s == 0 {
		return "None"
	}
	var p []string
	for _, x := range []struct {
		b int
		n string
	}{{scCalledByEntry, "Entry"}, {scContracts, "Contracts"}, {scGroups, "Groups"}, {scRules, "Rules"}, {scGlobal, "Global"}} {
		if s&x.b != 0 {
			p = append(p, x.n)
		}
	}
	return strings.Join(p, "+")
}

// cls is the classification of an evaluated cell.
type cls struct {
	labels     []string
	nontrivial bool
	excluded   bool
	units      int
}

func (o *cls) Label(l string)            { o.labels = append(o.labels, l) }
func (o *cls) Labelf(f string, a ...any) { o.Label(fmt.Sprintf(f, a...)) }
func (o *cls) NonTrivial()               { o.nontrivial = true }
func (o *cls) Excluded()                 { o.excluded = true }
func (o *cls) Units(n int)               { o.units += n }

func (o *cls) apply(v *vt.Obs) {
	for _, l := range o.labels {
		v.Label(l)
	}
	if o.nontrivial {
		v.NonTrivial()
	}
	if o.excluded {
		v.Excluded()
	}
	v.Units(o.units)
}

func checkCell(c Case, v *vt.Obs) error {
	o := &cls{}
	err := evalCell(c, o, true)
	o.apply(v)
	return err
}

// evalCell runs one cell: real execution against the specification. honourKnown skips shapes of listed findings.
func evalCell(c Case, o *cls, honourKnown bool) error {
	w, err := getWorld()
	if err != nil {
		return fmt.Errorf("setup: %v", err)
	}
	if err := validCase(c); err != nil {
		return err
	}
	script := w.entryScript(c)
	entry := hash.Hash160(script)
	chain, leaf, groups, err := w.positions(c, entry)
	if err != nil {
		return fmt.Errorf("malformed case: %v", err)
	}
	acct := w.resolve(c.Acct.Ref, entry) // a public key stands for the account of its signature contract
	signers, err := w.realSigners(c.Signers, entry)
	if err != nil {
		return fmt.Errorf("malformed case: %v", err)
	}

	if honourKnown && !leaf.hasCalling && vt.Known(KnownZeroCaller) {
		// listed finding: CalledByContract(00..00) matches in a context without a calling script; that exact shape is skipped
		for _, s := range c.Signers {
			for _, r := range s.Rules {
				if s.Scope&scRules != 0 && containsByHashZero(r.Cond) {
					o.Excluded()
					return nil
				}
			}
		}
	}

	want, y := allowed(c.Signers, acct, w.envOf(leaf, entry, groups))

	viaNote, mutated := false, false
	kinds := ""
	for _, h := range c.Hops {
		if h.Kind == HopNative || h.Kind == HopReward {
			viaNote = true
		}
		kinds += string("cdnsr"[h.Kind])
		if h.Mut != nil {
			mutated = true
			kinds += map[string]string{MutUpdate: "U", MutDestroy: "X"}[h.Mut.Op]
		}
	}
	got, err := w.execute(script, signers, viaNote)
	if err != nil {
		return err
	}
	if mutated { // the update / destruction happened in the private store of the test execution only
		if err := w.intact(); err != nil {
			return err
		}
	}
	o.Units(1)

	ok := got.v == want
	lenient := false
	if !ok && y.emptyGroups && got.v == vFault {
		// CustomGroups with an EMPTY group list evaluated in a context without ReadStates: there is no group to look
		// up, so the specification goes on to the rules; the implementation refuses to evaluate the scope at all. The
		// property text does not settle this corner (the fault is never a successful witness): claimed domain restricted,
		// both answers accepted and counted (see report).
		ok, lenient = true, true
	}
	if !ok {
		return fmt.Errorf("witness check of %s%s in context {current %s, calling %s (has=%v), level %d, flags %d} over chain [%s] leaf %d: real %s%s, specification %s (decided by: %s); signers %+v",
			refNames[c.Acct.Ref], map[bool]string{true: " (public key)", false: ""}[c.Acct.Pub],
			leaf.cur.StringLE(), leaf.calling.StringLE(), leaf.hasCalling, leaf.level, leaf.flags, kinds, c.Leaf,
			got.v, map[bool]string{true: " (" + got.msg + ")", false: ""}[got.msg != ""], want, y.by, c.Signers)
	}

	// ---- classification ----
	var consulted *Signer
	for i := range c.Signers {
		if w.resolve(c.Signers[i].Acct, entry) == acct {
			consulted = &c.Signers[i]
		}
	}
	switch {
	case y.by == "own-call":
		o.Label("acct/calling-own")
	case consulted != nil && c.Acct.Pub:
		o.Label("acct/signer-pubkey")
	case consulted != nil:
		o.Label("acct/signer")
	case acct == leaf.cur:
		o.Label("acct/current-nonsigner")
	case c.Acct.Pub:
		o.Label("acct/nonsigner-pubkey")
	default:
		o.Label("acct/nonsigner")
	}
	if consulted != nil && y.by != "own-call" {
		o.Label("scope/" + scopeLabel(consulted.Scope))
	}
	o.Labelf("depth/%d", len(c.Hops))
	if kinds != "" {
		o.Label("hops/" + kinds)
	}
	if c.Leaf == LeafGas {
		o.Label("leaf/native-gas")
	}
	if !leaf.flags.Has(callflag.ReadStates) {
		o.Label("ctx/no-ReadStates")
	}
	if len(c.Signers) == 2 {
		o.Label("two-signers")
	}
	o.Label("outcome/" + want.String())
	o.Label("by/" + y.by)
	if consulted != nil && y.by != "own-call" {
		usesEntry, entryUnderNot, usesGroup := consulted.Scope&scCalledByEntry != 0, false, consulted.Scope&scGroups != 0
		if consulted.Scope&scRules != 0 {
			for _, r := range consulted.Rules {
				e, n, g := condUses(r.Cond, false)
				usesEntry, entryUnderNot, usesGroup = usesEntry || e, entryUnderNot || n, usesGroup || g
			}
		}
		// class 1: the checking frame is not called by entry, yet its calling script hash IS the entry script hash
		// (frame of the entry script's own bytes in between), or it is a contract re-entered through the payment
		// callback while an outer frame of the same contract is called by entry; the signer's scope asks for the entry relation
		reentered := false
		for i, p := range chain {
			if i > 0 && i < len(chain)-1 && p.cur == leaf.cur && p.level == 1 && leaf.level > 1 {
				reentered = true
			}
		}
		if usesEntry && leaf.level >= 2 && ((leaf.hasCalling && leaf.calling == entry) || reentered) {
			o.Label("class/entry-hash-but-not-by-entry")
			flipped := w.envOf(leaf, entry, groups)
			flipped.byEntry = true
			if v, _ := allowed(c.Signers, acct, flipped); v != want {
				o.Label("class/entry-hash-but-not-by-entry/decisive") // an implementation taking the frame for "called by entry" answers differently
			}
			if entryUnderNot {
				o.Label("class/entry-hash-but-not-by-entry/under-not")
			}
		}
		// class 2: the groups of the current or calling contract of the checking frame were changed by this execution
		// and the signer's scope asks for group membership
		if usesGroup && (groups[leaf.cur] != w.groupsOf[leaf.cur] || (leaf.hasCalling && groups[leaf.calling] != w.groupsOf[leaf.calling])) {
			o.Label("class/groups-changed-in-execution")
			if v, _ := allowed(c.Signers, acct, w.envOf(leaf, entry, w.groupsOf)); v != want {
				o.Label("class/groups-changed-in-execution/decisive") // the groups from before the execution give a different answer
			}
		}
	}
	if mutated {
		o.Label("chain/self-update-or-destroy")
	}
	if lenient {
		o.Label("lenient/empty-groups-no-ReadStates")
	}

	// Non-trivial: the same witness check gives different answers at different positions of this chain, or the
	// deciding rule is under a Not.
	nt := y.underNot
	positions := append([]pos{}, chain...)
	if c.Leaf == LeafGas {
		positions = append(positions, leaf)
	}
	first, _ := allowed(c.Signers, acct, w.envOf(positions[0], entry, groups))
	for _, p := range positions[1:] {
		if v, _ := allowed(c.Signers, acct, w.envOf(p, entry, groups)); v != first {
			nt = true
			o.Label("nt/position-dependent")
			break
		}
	}
	if y.underNot {
		o.Label("nt/under-not")
	}
	if nt {
		o.NonTrivial()
	}
	return nil
}

func init() {
	vt.PropertyID = "C15"
	vt.Register("cells", 1.0, genCell, checkCell)
}

func rewardedAlready(hops []Hop) bool {
	for _, h := range hops {
		if h.Kind == HopReward {
			return true
		}
	}
	return false
}
