package c15

import (
	"fmt"

	"github.com/nspcc-dev/neo-go/pkg/core/transaction"
	"github.com/nspcc-dev/neo-go/pkg/crypto/hash"
	"github.com/nspcc-dev/neo-go/pkg/smartcontract/callflag"
	"github.com/nspcc-dev/neo-go/pkg/smartcontract/trigger"
	"github.com/nspcc-dev/neo-go/pkg/vm/opcode"
	"github.com/nspcc-dev/neo-go/pkg/vm/stackitem"
	"pgregory.net/rapid"
	"verifharness/asm"
	"verifharness/vt"
)

// twice: TWO witness checks of the same account under the same signers in ONE transaction, along two different call
// chains (which may end in the same contract at another depth). Each answer is what the specification says for its
// own context: an answer does not depend on what was checked earlier in the execution.
type TwiceCase struct {
	First  Case `json:"first"`
	Second Case `json:"second"` // its signers and account are those of First
}

func genTwice(t *rapid.T) TwiceCase {
	c := TwiceCase{First: genCellBounded(t, 3), Second: genCellBounded(t, 3)}
	c.Second.Signers = c.First.Signers
	c.Second.Acct = c.First.Acct
	return c
}

func plainChain(c Case) bool {
	for _, h := range c.Hops {
		if h.Kind != HopCall && h.Kind != HopDyn || h.Mut != nil {
			return false
		}
	}
	return true
}

func checkTwice(c TwiceCase, o *vt.Obs) error {
	w, err := getWorld()
	if err != nil {
		return fmt.Errorf("setup: %v", err)
	}
	c.Second.Signers, c.Second.Acct = c.First.Signers, c.First.Acct
	if validCase(c.First) != nil || validCase(c.Second) != nil || !plainChain(c.First) || !plainChain(c.Second) {
		return nil
	}
	b := asm.New()
	w.emitArgs(b, c.First)
	b.Jmp(opcode.CALLL, "routine")
	w.emitArgs(b, c.Second)
	b.Jmp(opcode.CALLL, "routine")
	b.Op(opcode.RET)
	b.Label("routine")
	b.Raw(w.body)
	script := b.Script()
	entry := hash.Hash160(script)
	var want [2]verdict
	var ys [2]bool
	for i, cs := range []Case{c.First, c.Second} {
		_, leaf, groups, err := w.positions(cs, entry)
		if err != nil {
			return nil
		}
		acct := w.resolve(cs.Acct.Ref, entry)
		v, y := allowed(cs.Signers, acct, w.envOf(leaf, entry, groups))
		want[i], ys[i] = v, y.emptyGroups
		if !leaf.hasCalling && vt.Known(KnownZeroCaller) {
			for _, s := range cs.Signers {
				for _, r := range s.Rules {
					if s.Scope&scRules != 0 && containsByHashZero(r.Cond) {
						o.Excluded()
						return nil
					}
				}
			}
		}
	}
	if want[0] == vFault || want[1] == vFault || ys[0] || ys[1] {
		return nil // a fault ends the transaction; the empty-group corner is left to `cells`
	}
	signers, err := w.realSigners(c.First.Signers, entry)
	if err != nil {
		return nil
	}
	tx := transaction.New(script, 0)
	tx.Nonce = 16
	tx.ValidUntilBlock = w.bc.BlockHeight() + 1
	tx.Signers = signers
	tx.Scripts = make([]transaction.Witness, len(signers))
	ic, err := w.bc.GetTestVM(trigger.Application, tx, nil)
	if err != nil {
		return fmt.Errorf("GetTestVM: %v", err)
	}
	defer ic.Finalize()
	ic.VM.LoadWithFlags(script, callflag.All)
	if err := ic.VM.Run(); err != nil {
		return fmt.Errorf("two witness checks in one transaction (specification: %v then %v) FAULT: %v; cases %+v", want[0] == vYes, want[1] == vYes, err, c)
	}
	if ic.VM.Estack().Len() != 2 {
		return fmt.Errorf("harness: %d items on the result stack", ic.VM.Estack().Len())
	}
	r2, ok2 := ic.VM.Estack().Pop().Item().(stackitem.Bool)
	r1, ok1 := ic.VM.Estack().Pop().Item().(stackitem.Bool)
	if !ok1 || !ok2 {
		return fmt.Errorf("the witness checks did not produce Booleans")
	}
	o.Units(2)
	if bool(r1) != (want[0] == vYes) || bool(r2) != (want[1] == vYes) {
		return fmt.Errorf("two witness checks of the same account in one transaction: real %v then %v, specification %v then %v (each for its own context); first %+v second hops %+v leaf %d",
			bool(r1), bool(r2), want[0] == vYes, want[1] == vYes, c.First, c.Second.Hops, c.Second.Leaf)
	}
	if want[0] != want[1] {
		o.Label("twice-answers-differ")
		o.NonTrivial()
	} else {
		o.Label("twice-answers-equal")
	}
	return nil
}

func init() {
	vt.Register("twice", 0.3, genTwice, checkTwice)
}
