package c15

import (
	"testing"

	"verifharness/vt"
)

func TestProp(t *testing.T)   { vt.RunAll(t, 6000) }
func TestReplay(t *testing.T) { vt.ReplayAll(t) }
