package c15

import (
	"encoding/json"
	"fmt"
	"os"
	"path/filepath"
	"strconv"
	"strings"
	"testing"

	"verifharness/vt"
)

func TestProp(t *testing.T)   { vt.RunAll(t, 6000) }
func TestReplay(t *testing.T) { vt.ReplayAll(t) }

// TestExhaustive evaluates EVERY cell of the enumerated sub-domain (see exhaustive.go). It runs in the thorough tier
// (VERIF_TIER=thorough) or when VERIF_EXHAUSTIVE=1; VERIF_EXH_PART="i/n" restricts it to the cells with index = i mod n.
func TestExhaustive(t *testing.T) {
	if vt.Tier() != "thorough" && os.Getenv("VERIF_EXHAUSTIVE") == "" {
		t.Skip("exhaustive enumeration runs in the thorough tier only")
	}
	part, parts := 0, 1
	if s := os.Getenv("VERIF_EXH_PART"); s != "" {
		f := strings.Split(s, "/")
		if len(f) == 2 {
			part, _ = strconv.Atoi(f[0])
			parts, _ = strconv.Atoi(f[1])
		}
		if parts < 1 || part < 0 || part >= parts {
			t.Fatalf("bad VERIF_EXH_PART %q", s)
		}
	}
	sp := exhaustiveSpace()
	n, nt, excluded := 0, 0, 0
	labels := map[string]int{}
	for idx := part; idx < sp.size(); idx += parts {
		o := &cls{}
		err := func() (err error) {
			defer func() {
				if r := recover(); r != nil {
					err = fmt.Errorf("PANIC: %v", r)
				}
			}()
			return evalExhaustive(ExCase{Idx: idx}, o)
		}()
		if err != nil {
			cell, _ := sp.cell(idx)
			cj, _ := json.Marshal(cell)
			dir := os.Getenv("VERIF_FAILDIR")
			if dir == "" {
				root := os.Getenv("VERIF_ROOT")
				if root == "" {
					root = "/verif"
				}
				dir = filepath.Join(root, "replays", vt.PropertyID)
			}
			_ = os.MkdirAll(dir, 0o755)
			p := filepath.Join(dir, "fail-exhaustive-enum.json")
			env := map[string]any{"property": vt.PropertyID, "check": "exhaustive", "error": err.Error(), "case": ExCase{Idx: idx}}
			b, _ := json.MarshalIndent(env, "", " ")
			_ = os.WriteFile(p, b, 0o644)
			fmt.Printf("EXHAUSTIVE-FAIL idx=%d replay=%s cell=%s\n", idx, p, cj)
			t.Fatalf("enumerated cell %d fails: %v", idx, err)
		}
		n++
		if o.nontrivial {
			nt++
		}
		if o.excluded {
			excluded++
		}
		for _, l := range o.labels {
			labels[l]++
		}
	}
	fmt.Printf("EXHAUSTIVE cells=%d of=%d part=%d/%d nontrivial=%d excluded_known=%d true=%d false=%d fault=%d\n",
		n, sp.size(), part, parts, nt, excluded, labels["outcome/true"], labels["outcome/false"], labels["outcome/FAULT"])
}

// knownZeroCallerCase is the minimal form of finding KnownZeroCaller: the entry script checks the witness of a signer
// whose only rule is Allow CalledByContract(00..00); nothing calls the entry script.
const knownZeroCallerCase = `{"signers":[{"acct":10,"scope":64,"rules":[{"allow":true,"cond":{"t":"byhash","h":9}}]}],"hops":[],"leaf":0,"acct":{"ref":10}}`

// TestKnownZeroCaller re-confirms the listed finding (the checks skip that exact shape while it is listed as known).
func TestKnownZeroCaller(t *testing.T) {
	if !vt.Known(KnownZeroCaller) {
		t.Skip("finding not listed as known: TestProp generates the shape itself")
	}
	var c Case
	if err := json.Unmarshal([]byte(knownZeroCallerCase), &c); err != nil {
		t.Fatalf("bad fixed case: %v", err)
	}
	err := evalCell(c, &cls{}, false)
	if err == nil {
		t.Logf("fixed case no longer fails")
		return
	}
	msg := err.Error()
	if i := strings.Index(msg, "; signers"); i >= 0 {
		msg = msg[:i]
	}
	vt.KnownFinding(KnownZeroCaller, msg)
}
