package c15

import (
	"fmt"

	"github.com/nspcc-dev/neo-go/pkg/core/native/nativehashes"
	"github.com/nspcc-dev/neo-go/pkg/core/transaction"
	"github.com/nspcc-dev/neo-go/pkg/io"
	"github.com/nspcc-dev/neo-go/pkg/smartcontract/callflag"
	"github.com/nspcc-dev/neo-go/pkg/util"
	"github.com/nspcc-dev/neo-go/pkg/vm/emit"
	"pgregory.net/rapid"
	ck "verifharness/chainkit"
	"verifharness/vt"
)

// native_auth: the witness checks the native contracts make on behalf of an account or a key ("a contract's check of
// a signer's witness succeeds only where the signer's scope allows it", "an account that did not sign never
// passes"). The entry script calls ONE native method that acts for the owner of a key (register / unregister it as a
// candidate, change its vote, move its NEO or GAS); the owner's signer is absent or carries a drawn scope. The method
// answers true exactly when the owner's witness is valid inside the called native contract (called directly by the
// entry script): Global, CalledByEntry, CustomContracts naming that native, a rule allowing its script hash; it
// answers false (and does nothing) for an absent signer, None, CustomContracts naming another contract, a deny rule.
type NativeAuthCase struct {
	Method int `json:"method"` // 0 NEO.registerCandidate 1 NEO.unregisterCandidate 2 NEO.vote(acc, null) 3 NEO.transfer 4 GAS.transfer
	Owner  int `json:"owner"`  // 0..2: ck.Accounts[1+Owner]
	// Scope of the owner's signer: 0 absent, 1 None, 2 CalledByEntry, 3 Global, 4 CustomContracts[the native called],
	// 5 CustomContracts[another native], 6 Rules allow ScriptHash(native called), 7 Rules deny everything,
	// 8 Rules allow CalledByEntry, 9 CustomContracts[other] | CalledByEntry
	Scope int `json:"scope"`
}

func genNativeAuthCase(t *rapid.T) NativeAuthCase {
	return NativeAuthCase{
		Method: rapid.IntRange(0, 4).Draw(t, "method"),
		Owner:  rapid.IntRange(0, 2).Draw(t, "owner"),
		Scope:  rapid.IntRange(0, 9).Draw(t, "scope"),
	}
}

func checkNativeAuthCase(c NativeAuthCase, o *vt.Obs) error {
	if c.Method < 0 || c.Method > 4 || c.Owner < 0 || c.Owner > 2 || c.Scope < 0 || c.Scope > 9 {
		return nil
	}
	w, err := getWorld()
	if err != nil {
		return err
	}
	owner := ck.Accounts[1+c.Owner]
	payer := ck.Accounts[0]
	other := ck.Accounts[4].Hash
	native, otherNative := nativehashes.NeoToken, nativehashes.GasToken
	if c.Method == 4 {
		native, otherNative = nativehashes.GasToken, nativehashes.NeoToken
	}
	bw := io.NewBufBinWriter()
	var name string
	switch c.Method {
	case 0:
		name = "NEO.registerCandidate(key)"
		emit.AppCall(bw.BinWriter, native, "registerCandidate", callflag.All, owner.Pub.Bytes())
	case 1:
		name = "NEO.unregisterCandidate(key)"
		emit.AppCall(bw.BinWriter, native, "unregisterCandidate", callflag.All, owner.Pub.Bytes())
	case 2:
		name = "NEO.vote(account, null)"
		emit.AppCall(bw.BinWriter, native, "vote", callflag.All, owner.Hash, nil)
	case 3:
		name = "NEO.transfer(account, other, 1, null)"
		emit.AppCall(bw.BinWriter, native, "transfer", callflag.All, owner.Hash, other, int64(1), nil)
	default:
		name = "GAS.transfer(account, other, 1, null)"
		emit.AppCall(bw.BinWriter, native, "transfer", callflag.All, owner.Hash, other, int64(1), nil)
	}
	if bw.Err != nil {
		return bw.Err
	}
	signers := []transaction.Signer{{Account: payer.Hash, Scopes: transaction.None}}
	allowCond := func(cond transaction.WitnessCondition, action transaction.WitnessAction) []transaction.WitnessRule {
		return []transaction.WitnessRule{{Action: action, Condition: cond}}
	}
	sh := func(h util.Uint160) *transaction.ConditionScriptHash {
		c := transaction.ConditionScriptHash(h)
		return &c
	}
	tr := transaction.ConditionBoolean(true)
	want := false
	s := transaction.Signer{Account: owner.Hash}
	switch c.Scope {
	case 0:
	case 1:
		s.Scopes = transaction.None
	case 2:
		s.Scopes, want = transaction.CalledByEntry, true
	case 3:
		s.Scopes, want = transaction.Global, true
	case 4:
		s.Scopes, s.AllowedContracts, want = transaction.CustomContracts, []util.Uint160{native}, true
	case 5:
		s.Scopes, s.AllowedContracts = transaction.CustomContracts, []util.Uint160{otherNative}
	case 6:
		s.Scopes, s.Rules, want = transaction.Rules, allowCond(sh(native), transaction.WitnessAllow), true
	case 7:
		s.Scopes, s.Rules = transaction.Rules, allowCond(&tr, transaction.WitnessDeny)
	case 8:
		s.Scopes, s.Rules, want = transaction.Rules, allowCond(transaction.ConditionCalledByEntry{}, transaction.WitnessAllow), true
	default:
		s.Scopes, s.AllowedContracts, want = transaction.CustomContracts|transaction.CalledByEntry, []util.Uint160{otherNative}, true
	}
	if c.Scope != 0 {
		signers = append(signers, s)
	}
	got, err := w.execute(bw.Bytes(), signers, false)
	if err != nil {
		return fmt.Errorf("%s with the owner's signer %s: %v", name, describeAuthScope(c.Scope), err)
	}
	o.Units(1)
	o.Labelf("native-auth/%d/scope%d", c.Method, c.Scope)
	switch {
	case got.v == vFault && !want:
		// a refusal by FAULT is a refusal
		o.Label("native-auth-refused-by-fault")
	case got.v == vFault:
		return fmt.Errorf("%s with the owner's signer %s FAULTs (%s) although the owner's witness is valid inside the native contract", name, describeAuthScope(c.Scope), got.msg)
	case (got.v == vYes) != want:
		return fmt.Errorf("%s called by the entry script answers %v with the owner's signer %s: the owner's witness is %s inside the native contract",
			name, got.v == vYes, describeAuthScope(c.Scope), map[bool]string{true: "valid", false: "NOT valid"}[want])
	}
	if err := w.intact(); err != nil {
		return err
	}
	o.NonTrivial()
	return nil
}

func describeAuthScope(s int) string {
	return [...]string{"absent", "None", "CalledByEntry", "Global", "CustomContracts[the native called]", "CustomContracts[another native]",
		"Rules[allow ScriptHash(the native called)]", "Rules[deny true]", "Rules[allow CalledByEntry]", "CustomContracts[another native]+CalledByEntry"}[s]
}

func init() {
	vt.Register("native_auth", 0.02, genNativeAuthCase, checkNativeAuthCase)
}
